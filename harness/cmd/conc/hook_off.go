//go:build !verif
// +build !verif

package main

func setHook(f func(string, int, uintptr)) {}
