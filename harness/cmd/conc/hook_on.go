//go:build verif
// +build verif

package main

import "gorgonia.org/tensor"

func setHook(f func(string, int, uintptr)) { tensor.VerifHook = f }
