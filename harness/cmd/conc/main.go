// conc: goroutines that only read the tensors they share (C18).
//
//	-mode writeset : run every operation of the read-only alphabet ALONE with the metadata hooks on and print,
//	                 per operation, the writes to shared operands it performed (binds spec/Conc.tla to the code)
//	-mode monitor  : run G goroutines with generated programs over shared read-only tensors plus private ones,
//	                 compare every result with the sequential run (the binary is built with -race)
package main

import (
	"encoding/json"
	"flag"
	"fmt"
	"math/rand"
	"os"
	"reflect"
	"runtime"
	"sync"
	"time"
	"unsafe"

	"gorgonia.org/tensor"
)

var (
	pins   []unsafe.Pointer
	pinned = map[uintptr]bool{}
)

type sharedSet struct {
	names []string
	ts    map[string]*tensor.Dense
}

func rangeF(n int, off float64) []float64 {
	x := make([]float64, n)
	for i := range x {
		x[i] = float64((i*7)%11) + off
	}
	return x
}

func mkShared() *sharedSet {
	s := &sharedSet{ts: map[string]*tensor.Dense{}}
	add := func(n string, t *tensor.Dense) { s.names = append(s.names, n); s.ts[n] = t }
	add("M", tensor.New(tensor.WithShape(3, 4), tensor.WithBacking(rangeF(12, 1))))
	mt := tensor.New(tensor.WithShape(4, 3), tensor.WithBacking(rangeF(12, 2)))
	mt.T()
	add("MT", mt) // lazily transposed, logical shape (3,4)
	base := tensor.New(tensor.WithShape(3, 6), tensor.WithBacking(rangeF(18, 3)))
	sl, _ := base.Slice(nil, tensor.S(1, 5))
	add("MS", sl.(*tensor.Dense)) // a sliced view, shape (3,4)
	add("SQ", tensor.New(tensor.WithShape(3, 3), tensor.WithBacking(rangeF(9, 1))))
	add("V3", tensor.New(tensor.WithShape(3), tensor.WithBacking(rangeF(3, 1))))
	add("V4", tensor.New(tensor.WithShape(4), tensor.WithBacking(rangeF(4, 2))))
	return s
}

// the read-only alphabet: name -> operation on the shared set (and a private tensor), returning a digest
type opFn func(s *sharedSet, priv *tensor.Dense, r *rand.Rand) []float64

func flat(t tensor.Tensor) []float64 {
	d, ok := t.(*tensor.Dense)
	if !ok || d == nil {
		return nil
	}
	var out []float64
	it := d.Iterator()
	for i, err := it.Next(); err == nil; i, err = it.Next() {
		switch v := d.Get(i).(type) {
		case float64:
			out = append(out, v)
		case bool:
			if v {
				out = append(out, 1)
			} else {
				out = append(out, 0)
			}
		case int:
			out = append(out, float64(v))
		}
	}
	return append(out, float64(len(d.Shape())))
}

func must(t tensor.Tensor, err error) []float64 {
	if err != nil {
		return []float64{-12345}
	}
	return flat(t)
}

var alphabet = map[string]opFn{
	"At": func(s *sharedSet, p *tensor.Dense, r *rand.Rand) []float64 {
		var out []float64
		for _, n := range []string{"M", "MT", "MS"} {
			v, _ := s.ts[n].At(r.Intn(3), r.Intn(4))
			f, _ := v.(float64)
			out = append(out, f)
		}
		return out
	},
	"Slice": func(s *sharedSet, p *tensor.Dense, r *rand.Rand) []float64 {
		n := []string{"M", "MT", "MS"}[r.Intn(3)]
		v, err := s.ts[n].Slice(tensor.S(1, 3), tensor.S(0, 2))
		return must(v, err)
	},
	"Iterate": func(s *sharedSet, p *tensor.Dense, r *rand.Rand) []float64 {
		return flat(s.ts[[]string{"M", "MT", "MS"}[r.Intn(3)]])
	},
	"AddShared": func(s *sharedSet, p *tensor.Dense, r *rand.Rand) []float64 {
		a := s.ts[[]string{"M", "MT", "MS"}[r.Intn(3)]]
		b := s.ts[[]string{"M", "MT", "MS"}[r.Intn(3)]]
		return must(tensor.Add(a, b))
	},
	"MulPrivate": func(s *sharedSet, p *tensor.Dense, r *rand.Rand) []float64 {
		return must(tensor.Mul(s.ts[[]string{"M", "MT", "MS"}[r.Intn(3)]], p))
	},
	"SubScalar": func(s *sharedSet, p *tensor.Dense, r *rand.Rand) []float64 {
		return must(tensor.Sub(s.ts[[]string{"M", "MT", "MS"}[r.Intn(3)]], 2.0))
	},
	"Lt": func(s *sharedSet, p *tensor.Dense, r *rand.Rand) []float64 {
		return must(tensor.Lt(s.ts[[]string{"M", "MT", "MS"}[r.Intn(3)]], s.ts["M"]))
	},
	"Sum": func(s *sharedSet, p *tensor.Dense, r *rand.Rand) []float64 {
		return must(tensor.Sum(s.ts[[]string{"M", "MT", "MS"}[r.Intn(3)]], r.Intn(2)))
	},
	"Max": func(s *sharedSet, p *tensor.Dense, r *rand.Rand) []float64 {
		return must(s.ts[[]string{"M", "MT", "MS"}[r.Intn(3)]].Max(1, 0))
	},
	"Argmax": func(s *sharedSet, p *tensor.Dense, r *rand.Rand) []float64 {
		return must(tensor.Argmax(s.ts[[]string{"M", "MT", "MS"}[r.Intn(3)]], r.Intn(3)-1))
	},
	"MatMul": func(s *sharedSet, p *tensor.Dense, r *rand.Rand) []float64 {
		return must(tensor.MatMul(s.ts["SQ"], s.ts[[]string{"M", "MT", "MS"}[r.Intn(3)]]))
	},
	"MatVecMul": func(s *sharedSet, p *tensor.Dense, r *rand.Rand) []float64 {
		return must(tensor.MatVecMul(s.ts[[]string{"M", "MT", "MS"}[r.Intn(3)]], s.ts["V4"]))
	},
	"DotVecMat": func(s *sharedSet, p *tensor.Dense, r *rand.Rand) []float64 {
		return must(tensor.Dot(s.ts["V3"], s.ts[[]string{"M", "MT", "MS"}[r.Intn(3)]]))
	},
	"DotMatVec": func(s *sharedSet, p *tensor.Dense, r *rand.Rand) []float64 {
		return must(tensor.Dot(s.ts[[]string{"M", "MT", "MS"}[r.Intn(3)]], s.ts["V4"]))
	},
	"Inner": func(s *sharedSet, p *tensor.Dense, r *rand.Rand) []float64 {
		v, err := tensor.Inner(s.ts["V3"], s.ts["V3"])
		if err != nil {
			return []float64{-12345}
		}
		return []float64{v.(float64)}
	},
	"Clone": func(s *sharedSet, p *tensor.Dense, r *rand.Rand) []float64 {
		return flat(s.ts[[]string{"M", "MT", "MS"}[r.Intn(3)]].Clone().(*tensor.Dense))
	},
	"Materialize": func(s *sharedSet, p *tensor.Dense, r *rand.Rand) []float64 {
		return flat(s.ts[[]string{"MT", "MS"}[r.Intn(2)]].Materialize())
	},
	"Format": func(s *sharedSet, p *tensor.Dense, r *rand.Rand) []float64 {
		str := fmt.Sprintf("%v", s.ts[[]string{"M", "MT", "MS"}[r.Intn(3)]])
		return []float64{float64(len(str))}
	},
	"PrivateChain": func(s *sharedSet, p *tensor.Dense, r *rand.Rand) []float64 {
		// private tensors are the goroutine's own: it may write them
		q := p.Clone().(*tensor.Dense)
		q.T()
		q.Transpose()
		tensor.Add(q, 1.0, tensor.UseUnsafe())
		q.Reshape(12)
		x, _ := q.Slice(tensor.S(2, 9))
		return must(tensor.Square(x))
	},
	// ---- operations with function options on the goroutine's OWN tensors (reuse / incr destinations, in-place
	// results, recycled tensors): they exercise the option, ints and tensor pools while shared operands are only read
	"PrivReuse": func(s *sharedSet, p *tensor.Dense, r *rand.Rand) []float64 {
		d := tensor.New(tensor.WithShape(3, 4), tensor.Of(tensor.Float64))
		return must(tensor.Add(s.ts[[]string{"M", "MT", "MS"}[r.Intn(3)]], p, tensor.WithReuse(d)))
	},
	"PrivReuseReshaped": func(s *sharedSet, p *tensor.Dense, r *rand.Rand) []float64 {
		// a reuse tensor of the right size but another shape is reshaped by the library
		d := tensor.New(tensor.WithShape([][]int{{12}, {4, 3}, {2, 6}, {2, 2, 3}}[r.Intn(4)]...), tensor.Of(tensor.Float64))
		return must(tensor.Sub(p, s.ts[[]string{"M", "MT", "MS"}[r.Intn(3)]], tensor.WithReuse(d)))
	},
	"PrivReuseWrongSize": func(s *sharedSet, p *tensor.Dense, r *rand.Rand) []float64 {
		d := tensor.New(tensor.WithShape(5), tensor.Of(tensor.Float64))
		return must(tensor.Add(p, s.ts["M"], tensor.WithReuse(d))) // refused
	},
	"PrivIncr": func(s *sharedSet, p *tensor.Dense, r *rand.Rand) []float64 {
		d := tensor.New(tensor.WithShape(3, 4), tensor.WithBacking(rangeF(12, 5)))
		return must(tensor.Mul(s.ts[[]string{"M", "MT", "MS"}[r.Intn(3)]], p, tensor.WithIncr(d)))
	},
	"PrivUnsafe": func(s *sharedSet, p *tensor.Dense, r *rand.Rand) []float64 {
		q := p.Clone().(*tensor.Dense)
		return must(tensor.Div(q, s.ts[[]string{"M", "MT", "MS"}[r.Intn(3)]], tensor.UseUnsafe()))
	},
	"PrivScalarReuse": func(s *sharedSet, p *tensor.Dense, r *rand.Rand) []float64 {
		d := tensor.New(tensor.WithShape(12), tensor.Of(tensor.Float64))
		return must(tensor.Add(3.0, s.ts[[]string{"M", "MT", "MS"}[r.Intn(3)]], tensor.WithReuse(d)))
	},
	"PrivCmpSameType": func(s *sharedSet, p *tensor.Dense, r *rand.Rand) []float64 {
		return must(tensor.Gte(p, s.ts[[]string{"M", "MT", "MS"}[r.Intn(3)]], tensor.AsSameType()))
	},
	"PrivCmpReuse": func(s *sharedSet, p *tensor.Dense, r *rand.Rand) []float64 {
		d := tensor.New(tensor.WithShape(3, 4), tensor.Of(tensor.Bool))
		return must(tensor.Lt(s.ts[[]string{"M", "MT", "MS"}[r.Intn(3)]], p, tensor.WithReuse(d)))
	},
	"PrivUnaryReuse": func(s *sharedSet, p *tensor.Dense, r *rand.Rand) []float64 {
		d := tensor.New(tensor.WithShape(3, 4), tensor.Of(tensor.Float64))
		return must(tensor.Square(s.ts[[]string{"M", "MT", "MS"}[r.Intn(3)]], tensor.WithReuse(d)))
	},
	"PrivApply": func(s *sharedSet, p *tensor.Dense, r *rand.Rand) []float64 {
		return must(s.ts[[]string{"M", "MT", "MS"}[r.Intn(3)]].Apply(func(x float64) float64 { return 2*x + 1 }))
	},
	"PrivMatMulReuse": func(s *sharedSet, p *tensor.Dense, r *rand.Rand) []float64 {
		d := tensor.New(tensor.WithShape(3, 4), tensor.Of(tensor.Float64))
		return must(tensor.MatMul(s.ts["SQ"], s.ts[[]string{"M", "MT", "MS"}[r.Intn(3)]], tensor.WithReuse(d)))
	},
	"PrivMatVecIncr": func(s *sharedSet, p *tensor.Dense, r *rand.Rand) []float64 {
		d := tensor.New(tensor.WithShape(3), tensor.WithBacking(rangeF(3, 4)))
		return must(tensor.MatVecMul(s.ts[[]string{"M", "MT", "MS"}[r.Intn(3)]], s.ts["V4"], tensor.WithIncr(d)))
	},
	"PrivOuterReuse": func(s *sharedSet, p *tensor.Dense, r *rand.Rand) []float64 {
		d := tensor.New(tensor.WithShape(3, 4), tensor.Of(tensor.Float64))
		return must(tensor.Outer(s.ts["V3"], s.ts["V4"], tensor.WithReuse(d)))
	},
	"PrivSumReuse": func(s *sharedSet, p *tensor.Dense, r *rand.Rand) []float64 {
		return must(tensor.Sum(p, 0, 1))
	},
	"PrivRecycle": func(s *sharedSet, p *tensor.Dense, r *rand.Rand) []float64 {
		// hand an own tensor back to the library's pool; later results may be built from it
		q, err := tensor.Add(p, s.ts["M"])
		if err != nil {
			return []float64{-12345}
		}
		out := flat(q)
		tensor.ReturnTensor(q)
		return out
	},
	"PrivViews": func(s *sharedSet, p *tensor.Dense, r *rand.Rand) []float64 {
		q := p.Clone().(*tensor.Dense)
		v, err := q.Slice(tensor.S(0, 3, 2), nil)
		if err != nil {
			return []float64{-12345}
		}
		w, _ := v.(*tensor.Dense).SafeT()
		x, err := tensor.Add(w, w)
		tensor.ReturnTensor(v)
		return must(x, err)
	},
	"PrivRollStack": func(s *sharedSet, p *tensor.Dense, r *rand.Rand) []float64 {
		q, err := p.RollAxis(1, 0, true)
		if err != nil {
			return []float64{-12345}
		}
		st, err := s.ts["MT"].Stack(1, s.ts["MS"], p)
		return append(flat(q), must(st, err)...)
	},
	// ---- tensor-scalar operations with goroutine-specific scalars (the scalar travels through pooled headers):
	// every comparison and arithmetic operator, scalar on either side, contiguous and iterator paths
	"CmpScalar": func(s *sharedSet, p *tensor.Dense, r *rand.Rand) []float64 {
		a := s.ts[[]string{"M", "MT", "MS"}[r.Intn(3)]]
		k := float64(r.Intn(12))
		fs := []func(a, b interface{}, opts ...tensor.FuncOpt) (tensor.Tensor, error){tensor.Gt, tensor.Gte, tensor.Lt, tensor.Lte, tensor.ElEq, tensor.ElNe}
		f := fs[r.Intn(len(fs))]
		var opts []tensor.FuncOpt
		if r.Intn(2) == 0 {
			opts = append(opts, tensor.AsSameType())
		}
		if r.Intn(2) == 0 {
			return must(f(a, k, opts...))
		}
		return must(f(k, a, opts...))
	},
	"ArithScalar": func(s *sharedSet, p *tensor.Dense, r *rand.Rand) []float64 {
		a := s.ts[[]string{"M", "MT", "MS"}[r.Intn(3)]]
		k := float64(1000 * (1 + r.Intn(9)))
		fs := []func(a, b interface{}, opts ...tensor.FuncOpt) (tensor.Tensor, error){tensor.Add, tensor.Sub, tensor.Mul, tensor.Div, tensor.Pow, tensor.Mod}
		f := fs[r.Intn(len(fs))]
		if r.Intn(2) == 0 {
			return must(f(a, k))
		}
		return must(f(k, a))
	},
	"PrivArithScalar": func(s *sharedSet, p *tensor.Dense, r *rand.Rand) []float64 {
		k := float64(1000 * (1 + r.Intn(9)))
		q := p.Clone().(*tensor.Dense)
		if r.Intn(2) == 0 {
			q.T()
		}
		var opts []tensor.FuncOpt
		switch r.Intn(3) {
		case 0:
			opts = append(opts, tensor.UseUnsafe())
		case 1:
			opts = append(opts, tensor.WithReuse(tensor.New(tensor.WithShape(q.Shape()...), tensor.Of(tensor.Float64))))
		}
		if r.Intn(2) == 0 {
			return must(tensor.Add(q, k, opts...))
		}
		return must(tensor.Sub(k, q, opts...))
	},
	"MinMaxScalar": func(s *sharedSet, p *tensor.Dense, r *rand.Rand) []float64 {
		a := s.ts[[]string{"M", "MT", "MS"}[r.Intn(3)]]
		k := float64(r.Intn(12))
		if r.Intn(2) == 0 {
			return must(tensor.MaxBetween(a, k))
		}
		return must(tensor.MinBetween(k, a))
	},
	// a private CLONE of a shared tensor is the goroutine's own: it may transpose, reshape and hand it back
	"CloneMutate": func(s *sharedSet, p *tensor.Dense, r *rand.Rand) []float64 {
		c := s.ts[[]string{"M", "MT", "MS"}[r.Intn(3)]].Clone().(*tensor.Dense)
		switch r.Intn(5) {
		case 0:
			c.Transpose()
		case 1:
			c.T()
			c.Transpose()
		case 2:
			if err := c.Reshape(12); err != nil {
				return []float64{-12345}
			}
		case 3:
			c.UT()
		default:
			out := flat(c)
			tensor.ReturnTensor(c)
			return out
		}
		tensor.Add(c, 1.0, tensor.UseUnsafe())
		return flat(c)
	},
	// tensor-scalar operations on own tensors of every element WIDTH (1, 2, 4, 8, 16 bytes): the scalar pools are per width
	"ScalarWidths": func(s *sharedSet, p *tensor.Dense, r *rand.Rand) []float64 {
		k := r.Intn(5)
		var t *tensor.Dense
		var sc interface{}
		switch k {
		case 0:
			t, sc = tensor.New(tensor.WithShape(4), tensor.WithBacking([]int8{1, 2, 3, 4})), int8(2)
		case 1:
			t, sc = tensor.New(tensor.WithShape(4), tensor.WithBacking([]int16{1, 2, 3, 4})), int16(3)
		case 2:
			t, sc = tensor.New(tensor.WithShape(4), tensor.WithBacking([]float32{1, 2, 3, 4})), float32(4)
		case 3:
			t, sc = tensor.New(tensor.WithShape(4), tensor.WithBacking([]float64{1, 2, 3, 4})), float64(5)
		default:
			t, sc = tensor.New(tensor.WithShape(4), tensor.WithBacking([]complex128{1, 2, 3, 4})), complex128(6)
		}
		res, err := tensor.Add(t, sc)
		if err != nil {
			return []float64{-12345}
		}
		d := res.(*tensor.Dense)
		out := []float64{float64(k)}
		for i := 0; i < 4; i++ {
			switch v := d.Get(i).(type) {
			case int8:
				out = append(out, float64(v))
			case int16:
				out = append(out, float64(v))
			case float32:
				out = append(out, float64(v))
			case float64:
				out = append(out, v)
			case complex128:
				out = append(out, real(v))
			}
		}
		return out
	},
	"Repeat": func(s *sharedSet, p *tensor.Dense, r *rand.Rand) []float64 {
		return must(tensor.Repeat(s.ts[[]string{"M", "MT", "MS"}[r.Intn(3)]], r.Intn(2), 2))
	},
	"Concat": func(s *sharedSet, p *tensor.Dense, r *rand.Rand) []float64 {
		return must(tensor.Concat(0, s.ts["M"], s.ts["MT"]))
	},
}

var opNames []string

func init() {
	for n := range alphabet {
		opNames = append(opNames, n)
	}
	// deterministic order
	for i := 0; i < len(opNames); i++ {
		for j := i + 1; j < len(opNames); j++ {
			if opNames[j] < opNames[i] {
				opNames[i], opNames[j] = opNames[j], opNames[i]
			}
		}
	}
}

func program(seed int64, n int) []string {
	r := rand.New(rand.NewSource(seed))
	p := make([]string, n)
	for i := range p {
		p[i] = opNames[r.Intn(len(opNames))]
	}
	return p
}

func runProgram(s *sharedSet, seed int64, prog []string, yield bool) [][]float64 {
	r := rand.New(rand.NewSource(seed * 31))
	yr := rand.New(rand.NewSource(seed*17 + 5)) // yields must not consume the program's random choices
	priv := tensor.New(tensor.WithShape(3, 4), tensor.WithBacking(rangeF(12, float64(seed%5))))
	var out [][]float64
	for _, op := range prog {
		if yield && yr.Intn(4) == 0 {
			runtime.Gosched()
		}
		out = append(out, safeOp(op, s, priv, r))
	}
	return out
}

// safeOp: a panic inside the library (e.g. on metadata torn by a concurrent writer) is reported, not fatal
func safeOp(op string, s *sharedSet, priv *tensor.Dense, r *rand.Rand) (res []float64) {
	defer func() {
		if p := recover(); p != nil {
			fmt.Printf("PANIC op=%s: %v\n", op, p)
			res = []float64{-54321}
		}
	}()
	return alphabet[op](s, priv, r)
}

func snapshotShared(s *sharedSet) map[string][]float64 {
	m := map[string][]float64{}
	for _, n := range s.names {
		t := s.ts[n]
		d := flat(t)
		for _, x := range t.Shape() {
			d = append(d, float64(x))
		}
		for _, x := range t.Strides() {
			d = append(d, float64(x))
		}
		// the saved access pattern of a pending transposition, observed through a clone that undoes it
		c := t.Clone().(*tensor.Dense)
		c.UT()
		for _, x := range c.Shape() {
			d = append(d, float64(x))
		}
		for _, x := range c.Strides() {
			d = append(d, float64(x))
		}
		m[n] = d
	}
	return m
}

func main() {
	mode := flag.String("mode", "monitor", "writeset | monitor")
	g := flag.Int("g", 4, "goroutines")
	n := flag.Int("n", 20, "operations per goroutine")
	rounds := flag.Int("rounds", 10, "rounds")
	seed := flag.Int64("seed", 1, "seed")
	procs := flag.Int("procs", 0, "GOMAXPROCS (0: leave)")
	only := flag.String("only", "", "restrict the alphabet to one operation (debugging)")
	flag.Parse()
	if *procs > 0 {
		runtime.GOMAXPROCS(*procs)
	}
	if *only != "" {
		opNames = []string{*only}
	}
	switch *mode {
	case "writeset":
		s := mkShared()
		ids := map[uintptr]string{}
		for _, nme := range s.names {
			ids[reflect.ValueOf(s.ts[nme]).Pointer()] = nme
		}
		res := map[string][][]string{}
		pools := map[string][][]interface{}{} // per operation: its pool traffic (first run), objects numbered per operation
		for _, op := range opNames {
			var writes [][]string
			free := map[uintptr]bool{} // pool protocol: objects currently lying in a pool
			slot := map[uintptr]int{}  // first run only: the op's own numbering of the pool objects it touches
			var pseq [][]interface{}
			run := 0
			setHook(func(ev string, size int, id uintptr) {
				if nme, ok := ids[id]; ok && len(ev) > 9 && ev[:9] == "MetaWrite" {
					writes = append(writes, []string{"wr", nme, ev})
				}
				if id == 0 {
					return
				}
				if !pinned[id] { // keep the object alive: its address is then never reused for another object
					pinned[id] = true
					pins = append(pins, unsafe.Pointer(id)) //nolint:govet
				}
				if run == 0 && len(ev) > 6 && (ev[:6] == "Borrow" || ev[:6] == "Return") && ev != "BorrowInts" && ev != "ReturnInts" {
					k, ok := slot[id]
					if !ok {
						k = len(slot) + 1
						slot[id] = k
					}
					kind := "put"
					if ev[:6] == "Borrow" {
						kind = "get"
					}
					pseq = append(pseq, []interface{}{kind, ev[6:], k})
				}
				switch {
				case len(ev) > 6 && ev[:6] == "Borrow":
					delete(free, id)
				case len(ev) > 6 && ev[:6] == "Return":
					if free[id] {
						// the same object is in the pool twice: two later borrowers (goroutines) will share it
						writes = append(writes, []string{"pool", ev, "object returned to its pool twice without being borrowed in between"})
					}
					free[id] = true
				}
			})
			before := snapshotShared(s)
			for k := 0; k < 12; k++ {
				run = k
				func() {
					// a panic of the library while an operation runs ALONE is an observation of the code, not a harness failure
					defer func() {
						if p := recover(); p != nil {
							writes = append(writes, []string{"panic", op, fmt.Sprintf("%v", p)})
						}
					}()
					alphabet[op](s, tensor.New(tensor.WithShape(3, 4), tensor.WithBacking(rangeF(12, 1))), rand.New(rand.NewSource(int64(k))))
				}()
			}
			setHook(nil)
			var after map[string][]float64
			func() {
				defer func() {
					if p := recover(); p != nil {
						writes = append(writes, []string{"panic", op, fmt.Sprintf("while reading the shared tensors afterwards: %v", p)})
						after = before
						s = mkShared() // the shared set is corrupt: start the next operation from a fresh one
						for k := range ids {
							delete(ids, k)
						}
						for _, nme := range s.names {
							ids[reflect.ValueOf(s.ts[nme]).Pointer()] = nme
						}
					}
				}()
				after = snapshotShared(s)
			}()
			if !reflect.DeepEqual(before, after) {
				writes = append(writes, []string{"wr", "?", "shared tensor observably changed"})
			}
			if writes == nil {
				writes = [][]string{}
			}
			res[op] = writes
			if pseq == nil {
				pseq = [][]interface{}{}
			}
			pools[op] = pseq
		}
		b, _ := json.Marshal(map[string]interface{}{"writes": res, "pool": pools})
		fmt.Println(string(b))
	case "stress":
		// every operation of the alphabet against every operation (incl. itself), several goroutines each
		s := mkShared()
		before := snapshotShared(s)
		bad := 0
		pairs := 0
		for ai, a := range opNames {
			for _, b := range opNames[ai:] {
				pairs++
				progs := [][]string{}
				for i := 0; i < *g; i++ {
					p := make([]string, *n)
					for k := range p {
						if (i+k)%2 == 0 {
							p[k] = a
						} else {
							p[k] = b
						}
					}
					progs = append(progs, p)
				}
				want := make([][][]float64, len(progs))
				for i := range progs {
					want[i] = runProgram(s, int64(i), progs[i], false)
				}
				got := make([][][]float64, len(progs))
				var wg sync.WaitGroup
				start := make(chan struct{})
				for i := range progs {
					wg.Add(1)
					go func(i int) {
						defer wg.Done()
						<-start
						got[i] = runProgram(s, int64(i), progs[i], true)
					}(i)
				}
				close(start)
				wg.Wait()
				for i := range progs {
					if !reflect.DeepEqual(got[i], want[i]) {
						bad++
						fmt.Printf("NONDETERMINISTIC pair=%s/%s goroutine=%d\n", a, b, i)
					}
				}
				if after := snapshotShared(s); !reflect.DeepEqual(before, after) {
					fmt.Printf("SHARED-CHANGED pair=%s/%s\n", a, b)
					bad++
					before = after
				}
			}
		}
		fmt.Printf("stress: pairs=%d goroutines=%d ops=%d nondeterministic=%d\n", pairs, *g, *n, bad)
	case "monitor":
		s := mkShared()
		before := snapshotShared(s)
		bad := 0
		for round := 0; round < *rounds; round++ {
			progs := make([][]string, *g)
			want := make([][][]float64, *g)
			for i := range progs {
				progs[i] = program(*seed*1000+int64(round*100+i), *n)
			}
			// the concurrent run comes FIRST: in the first round the library's lazily initialised state (pools created on
			// first use of an element width, ...) is still cold, which is when its initialisation can race
			got := make([][][]float64, *g)
			var wg sync.WaitGroup
			start := make(chan struct{})
			for i := range progs {
				wg.Add(1)
				go func(i int) {
					defer wg.Done()
					<-start
					got[i] = runProgram(s, int64(i), progs[i], true)
				}(i)
			}
			close(start)
			done := make(chan struct{})
			go func() { wg.Wait(); close(done) }()
			select {
			case <-done:
			case <-time.After(120 * time.Second):
				fmt.Println("MONITOR-HANG round", round)
				os.Exit(3)
			}
			for i := range progs {
				want[i] = runProgram(s, int64(i), progs[i], false) // the result each goroutine obtains running alone
			}
			for i := range progs {
				if !reflect.DeepEqual(got[i], want[i]) {
					bad++
					for k := range got[i] {
						if !reflect.DeepEqual(got[i][k], want[i][k]) {
							fmt.Printf("NONDETERMINISTIC round=%d goroutine=%d op#%d=%s got=%v want=%v\n", round, i, k, progs[i][k], got[i][k], want[i][k])
							break
						}
					}
				}
			}
			if after := snapshotShared(s); !reflect.DeepEqual(before, after) {
				fmt.Printf("SHARED-CHANGED round=%d\n", round)
				bad++
				before = after
			}
		}
		fmt.Printf("monitor: rounds=%d goroutines=%d ops=%d nondeterministic=%d\n", *rounds, *g, *n, bad)
	}
}
