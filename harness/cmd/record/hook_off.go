//go:build !verif
// +build !verif

package main

func installHook(g *gen) {}
func uninstallHook()      {}
