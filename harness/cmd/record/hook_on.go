//go:build verif
// +build verif

package main

import (
	"unsafe"

	"gorgonia.org/tensor"
)

var ptrIDs = map[uintptr]int{}

// pins keeps every object the hooks have shown alive: an address is then never reused for another object, so that an
// identity seen twice IS the same object (a pool may drop an object; the collector would recycle its address)
var pins []unsafe.Pointer

func installHook(g *gen) {
	tensor.VerifHook = func(event string, size int, id uintptr) {
		g.lock.Lock()
		defer g.lock.Unlock()
		n, ok := ptrIDs[id]
		if !ok {
			n = len(ptrIDs) + 1
			ptrIDs[id] = n
			if id != 0 {
				pins = append(pins, unsafe.Pointer(id)) //nolint:govet // the caller holds the object while the hook runs
			}
		}
		switch event {
		case "BorrowInts", "BorrowHeader", "BorrowOpt", "BorrowDense":
			if id != 0 {
				g.pool = append(g.pool, []int{0, size, n})
			}
		case "ReturnInts", "ReturnHeader", "ReturnOpt", "ReturnTensor":
			if id != 0 {
				g.pool = append(g.pool, []int{1, size, n})
			}
		}
	}
}

func uninstallHook() { tensor.VerifHook = nil }
