//go:build verif
// +build verif

package main

import (
	"gorgonia.org/tensor"
)

var ptrIDs = map[uintptr]int{}

func installHook(g *gen) {
	tensor.VerifHook = func(event string, size int, id uintptr) {
		g.lock.Lock()
		defer g.lock.Unlock()
		n, ok := ptrIDs[id]
		if !ok {
			n = len(ptrIDs) + 1
			ptrIDs[id] = n
		}
		switch event {
		case "BorrowInts", "BorrowHeader", "BorrowOpt", "BorrowDense":
			if id != 0 {
				g.pool = append(g.pool, []int{0, size, n})
			}
		case "ReturnInts", "ReturnHeader", "ReturnOpt", "ReturnTensor":
			if id != 0 {
				g.pool = append(g.pool, []int{1, size, n})
			}
		}
	}
}

func uninstallHook() { tensor.VerifHook = nil }
