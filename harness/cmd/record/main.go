// record runs random operation programs on the real gorgonia/tensor library and logs, after EVERY call,
// the call, its outcome and the observation of every live tensor, every caller-owned backing and every
// caller-owned argument slice.  The log (ndjson) is validated by TLC against spec/Trace.tla.
package main

import (
	"encoding/json"
	"flag"
	"fmt"
	"math/rand"
	"os"
	"strings"
	"sync"

	"gorgonia.org/tensor"
	"verif/harness/vals"
	"verif/harness/world"
)

type tinfo struct {
	view    bool
	stepped bool
	parent  int   // handle this view was taken from (0: none)
	kids    []int // live views taken from this tensor
	dead    bool
	boolean bool // a Bool result tensor
	integer bool // an Int result tensor (arg-reductions)
	pending bool // a lazy transpose may be pending (conservative)
	root    int  // handle of the tensor whose storage this one lives in (itself for fresh tensors)
	strided bool // a library result that kept the strided storage of a view operand (clone of a view's window)
	masked  bool // the storage this tensor lives in carries a mask (masked tensors take part in structural and mask operations only)
}

type gen struct {
	r    *rand.Rand
	f    *world.Free
	info []*tinfo
	out  *os.File
	dt   *vals.DT
	n    int
	lock sync.Mutex
	pool [][]int // pool hook events <<kind, size, id>> since the last line
}

func (g *gen) shape(h int) []int { return []int(g.f.T(h).Shape()) }

func (g *gen) alive() []int {
	var hs []int
	for i, x := range g.info {
		if !x.dead {
			hs = append(hs, i+1)
		}
	}
	return hs
}

func eq(a, b []int) bool {
	if len(a) != len(b) {
		return false
	}
	for i := range a {
		if a[i] != b[i] {
			return false
		}
	}
	return true
}

func prod(s []int) int {
	p := 1
	for _, x := range s {
		p *= x
	}
	return p
}

func coordOf(k int, shape []int) []int {
	c := make([]int, len(shape))
	for i := len(shape) - 1; i >= 0; i-- {
		c[i] = k % shape[i]
		k /= shape[i]
	}
	return c
}

func (g *gen) maxAbs(h int) float64 {
	els, err := world.ElemsOf(g.f.T(h))
	if err != nil {
		return 1e18
	}
	m := 0.0
	for _, e := range els {
		if v := vals.Magnitude(e); v > m {
			m = v
		}
	}
	return m
}

func (g *gen) pick(hs []int) int { return hs[g.r.Intn(len(hs))] }

// candidates with a given shape and properties
func (g *gen) sameShape(h int, f func(int) bool) []int {
	var out []int
	for _, o := range g.alive() {
		if o != h && eq(g.shape(o), g.shape(h)) && !g.info[o-1].boolean && !g.info[o-1].integer && !g.info[o-1].strided && !g.info[o-1].masked && (f == nil || f(o)) {
			out = append(out, o)
		}
	}
	return out
}

// afterReturn: the struct just handed back is what the library's next borrow receives (New, Slice, Materialize and
// the results of products / Repeat / Stack take their struct from that pool).  Build a fresh tensor from it and
// exercise what depends on the struct's other fields: a fresh tensor has no mask, no pending transpose, is no view.
func (g *gen) afterReturn() bool {
	if g.r.Intn(3) == 0 || len(g.alive()) >= 8 {
		return true
	}
	out, ok := g.do(mk("New", 0, []interface{}{g.randShape(), "C", ""}))
	if !ok || !out.IsNew {
		return ok
	}
	r := out.Ret
	ri := g.info[r-1]
	switch g.r.Intn(5) {
	case 0, 1:
		_, ok = g.do(mk("ResetMask", r, []int{}))
		ri.masked = true
	case 2:
		_, ok = g.do(mk("MaskPred", r, []interface{}{"gt", g.r.Intn(3), 0}))
		ri.masked = true
	case 3:
		_, ok = g.do(mk("UT", r, []int{}))
	default:
		_, ok = g.do(mk("Materialize", r, []int{}))
	}
	return ok
}

func (g *gen) plainDest(h int) bool {
	x := g.info[h-1]
	t := g.f.T(h)
	return !x.view && !t.IsMaterializable() && prod(g.shape(h)) > 1
}

type obsT struct {
	Shape []int   `json:"shape"`
	Elems []int64 `json:"elems"`
	Mask  []int   `json:"mask"` // MaskAt of every logical coordinate, row-major (all 0 for an unmasked tensor)
}

func (g *gen) observe() (obs []obsT, backs [][]int64, bad string) {
	// corrupted metadata can make the library panic while it is merely being read: that is an observation too
	defer func() {
		if p := recover(); p != nil {
			obs, backs, bad = nil, nil, fmt.Sprintf("panic while observing the live tensors: %v", p)
		}
	}()
	return g.observe1()
}

func (g *gen) observe1() ([]obsT, [][]int64, string) {
	var obs []obsT
	for i, t := range g.f.Live() {
		if g.info[i].dead {
			obs = append(obs, obsT{Shape: []int{}, Elems: []int64{}, Mask: []int{}})
			continue
		}
		o := obsT{Shape: append([]int{}, []int(t.Shape())...), Elems: []int64{}, Mask: []int{}}
		els, err := world.ElemsOf(t)
		if err != nil {
			return nil, nil, fmt.Sprintf("h%d unreadable: %v", i+1, err)
		}
		for _, e := range els {
			v, ok := vals.ToInt64(e)
			if !ok {
				return nil, nil, fmt.Sprintf("h%d holds the non-integer value %v", i+1, e)
			}
			o.Elems = append(o.Elems, v)
		}
		if msg := world.MetaInvariant(t); msg != "" {
			return nil, nil, fmt.Sprintf("h%d metadata: %s", i+1, msg)
		}
		sh := []int(t.Shape())
		for k := 0; k < len(els); k++ {
			bit := 0
			if t.IsMasked() {
				m, err := t.MaskAt(coordOf(k, sh)...)
				if err != nil {
					return nil, nil, fmt.Sprintf("h%d MaskAt(%v): %v", i+1, coordOf(k, sh), err)
				}
				if m {
					bit = 1
				}
			}
			o.Mask = append(o.Mask, bit)
		}
		obs = append(obs, o)
	}
	var backs [][]int64
	for _, b := range g.f.Backs() {
		row := []int64{}
		if b.IsValid() {
			for i := 0; i < b.Len(); i++ {
				v, _ := vals.ToInt64(b.Index(i).Interface())
				row = append(row, v)
			}
		}
		backs = append(backs, row)
	}
	return obs, backs, ""
}

func (g *gen) emit(ev string, op world.Op, out world.ExecOut) bool {
	obs, backs, bad := g.observe()
	caller := 0
	note := ""
	if msg := g.f.CallerChanged(); msg != "" {
		caller = 1
		note = msg
	}
	if bad != "" {
		caller = 1
		note = bad
	}
	if out.Panic != nil {
		caller = 1
		note = fmt.Sprintf("panic: %v", out.Panic)
	}
	errv := 0
	if out.Err != nil {
		errv = 1
	}
	if op.A == nil {
		op.A = json.RawMessage("[]")
	}
	g.lock.Lock()
	pool := g.pool
	g.pool = nil
	g.lock.Unlock()
	if pool == nil {
		pool = [][]int{}
	}
	if obs == nil {
		obs = []obsT{}
	}
	if backs == nil {
		backs = [][]int64{}
	}
	rec := map[string]interface{}{"ev": ev, "op": op, "err": errv, "ret": out.Ret, "obs": obs, "backs": backs,
		"caller": caller, "note": note, "pool": pool}
	b, _ := json.Marshal(rec)
	g.out.Write(b)
	g.out.Write([]byte("\n"))
	g.n++
	return caller == 0
}

func mk(k string, h int, a interface{}) world.Op {
	b, _ := json.Marshal(a)
	return world.Op{K: k, H: h, A: b}
}

func (g *gen) do(op world.Op) (world.ExecOut, bool) {
	out := g.f.Exec(op)
	if out.IsNew {
		g.info = append(g.info, &tinfo{root: len(g.info) + 1})
	}
	ok := g.emit("op", op, out)
	return out, ok && out.Panic == nil
}

func (g *gen) randShape() []int {
	r := 1 + g.r.Intn(3)
	s := make([]int, r)
	for i := range s {
		s[i] = 1 + g.r.Intn(3)
	}
	return s
}

func (g *gen) randSlices(h int) ([][]int, bool) {
	sh := g.shape(h)
	if len(sh) == 0 {
		return nil, false
	}
	n := 1 + g.r.Intn(len(sh))
	sl := make([][]int, n)
	stepped := false
	nonnil := false
	for i := 0; i < n; i++ {
		d := sh[i]
		switch g.r.Intn(4) {
		case 0:
			sl[i] = []int{0}
		case 1:
			sl[i] = []int{1, g.r.Intn(d)}
			nonnil = true
		default:
			s := g.r.Intn(d)
			e := s + 1 + g.r.Intn(d-s)
			st := 1
			if i > 0 && (e-s)%2 == 1 && e-s >= 3 && g.r.Intn(2) == 0 {
				st = 2
				stepped = true
			}
			sl[i] = []int{2, s, e, st}
			nonnil = true
		}
	}
	return sl, nonnil || stepped || true
}

// safeStep: a panic of the library while the generator merely inspects its tensors (shapes, magnitudes)
// ends the trace with an anomaly line.
func (g *gen) safeStep() (ok bool) {
	defer func() {
		if p := recover(); p != nil {
			g.emit("churn", world.Op{K: "Churn", H: 0, A: json.RawMessage("[]")}, world.ExecOut{Panic: fmt.Sprintf("while preparing the next call: %v", p)})
			ok = false
		}
	}()
	return g.step()
}

func (g *gen) step() bool {
	hs := g.alive()
	if len(hs) < 2 || (len(hs) < 8 && g.r.Intn(10) == 0) {
		if g.r.Intn(4) == 0 { // a masked tensor: the caller's mask slice is shared with the tensor
			sh := g.randShape()
			bits := make([]int, prod(sh))
			for i := range bits {
				bits[i] = g.r.Intn(2)
			}
			out, ok := g.do(mk("NewMasked", 0, []interface{}{sh, bits}))
			if out.IsNew {
				g.info[out.Ret-1].masked = true
			}
			return ok
		}
		_, ok := g.do(mk("New", 0, []interface{}{g.randShape(), "C", ""}))
		return ok
	}
	h := g.pick(hs)
	x := g.info[h-1]
	if x.strided {
		// listed finding KF-C07-6: such a result is only observed (and handed back), never fed to another operation
		if g.r.Intn(3) == 0 && len(hs) > 2 {
			tensor.ReturnTensor(g.f.T(h))
			x.dead = true
			g.f.Kill(h)
			return g.emit("return", world.Op{K: "ReturnTensor", H: h, A: json.RawMessage("[]")}, world.ExecOut{})
		}
		return true
	}
	sh := g.shape(h)
	t := g.f.T(h)
	numeric := !x.boolean && !x.integer
	k := g.r.Intn(25)
	if x.masked {
		// masked tensors: slicing, transposition, element writes, mask operations, handing back (values under a mask
		// and result masks of other operations are left open by the statements)
		switch k {
		case 0, 1, 2, 3, 7, 20, 22, 23, 24:
		default:
			return true
		}
	}
	switch k {
	case 22, 23: // mask operations; a mask is CREATED only on a tensor that is no view and has no views (a view of an
		// unmasked tensor would get a mask of its own, which Level 1 does not distinguish)
		if !numeric || len(sh) == 0 || x.strided {
			return true
		}
		if !x.masked && (x.view || len(x.kids) > 0 || t.IsMaterializable()) {
			return true
		}
		if x.view { // listed finding KF-C15-1: mask writes through (non-contiguous) views reach parent elements outside the view
			return true
		}
		var ok bool
		if k == 22 {
			_, ok = g.do(mk("ResetMask", h, []int{}))
		} else {
			pred := []string{"eq", "gt", "lt", "ge", "le", "ne"}[g.r.Intn(6)]
			_, ok = g.do(mk("MaskPred", h, []interface{}{pred, g.r.Intn(3), 0}))
		}
		x.masked = true
		return ok
	case 24: // hand a VIEW back to the pool (its parent lives on)
		if !x.view || len(x.kids) > 0 || len(hs) <= 2 {
			return true
		}
		tensor.ReturnTensor(t)
		x.dead = true
		g.f.Kill(h)
		if p := x.parent; p > 0 {
			var keep []int
			for _, o := range g.info[p-1].kids {
				if o != h {
					keep = append(keep, o)
				}
			}
			g.info[p-1].kids = keep
		}
		if !g.emit("return", world.Op{K: "ReturnTensor", H: h, A: json.RawMessage("[]")}, world.ExecOut{}) {
			return false
		}
		return g.afterReturn()
	case 0, 1: // slice
		if len(hs) >= 8 || x.boolean || x.integer {
			return true
		}
		sl, ok := g.randSlices(h)
		if !ok {
			return true
		}
		stepped := false
		for _, a := range sl {
			if a[0] == 2 && a[3] == 2 {
				stepped = true
			}
		}
		out, good := g.do(mk("Slice", h, sl))
		if out.IsNew {
			ni := g.info[out.Ret-1]
			ni.view, ni.parent, ni.stepped = true, h, stepped || x.stepped
			ni.root = x.root
			ni.masked = x.masked
			x.kids = append(x.kids, out.Ret)
		}
		return good
	case 2: // lazy transpose (a second one on a VIEW would transpose it physically: listed findings KF-C03-2/3)
		if len(sh) < 2 || (x.view && x.pending) {
			return true
		}
		x.pending = true
		p := g.r.Perm(len(sh))
		if g.r.Intn(3) == 0 {
			p = []int{}
		}
		_, ok := g.do(mk("T", h, p))
		return ok
	case 3:
		_, ok := g.do(mk("UT", h, []int{}))
		x.pending = false
		return ok
	case 4: // physical transpose: not on views (listed findings KF-C03-2/3)
		if x.view {
			return true
		}
		_, ok := g.do(mk("Transpose", h, []int{}))
		return ok
	case 5:
		if len(hs) >= 8 {
			return true
		}
		k := "Materialize"
		switch g.r.Intn(3) {
		case 0:
			k = "Clone"
		case 1: // a second tensor object over the same storage: to the generator it is a view of h (it may be handed back
			// while h lives on, and h's pending transposition must survive that)
			out, ok := g.do(mk("ShallowClone", h, []int{}))
			if out.IsNew {
				ni := g.info[out.Ret-1]
				ni.view, ni.parent, ni.stepped, ni.pending = true, h, x.stepped, x.pending
				ni.root, ni.masked, ni.boolean, ni.integer = x.root, x.masked, x.boolean, x.integer
				x.kids = append(x.kids, out.Ret)
			}
			return ok
		}
		out, ok := g.do(mk(k, h, []int{}))
		if out.IsNew {
			g.info[out.Ret-1].boolean, g.info[out.Ret-1].integer = x.boolean, x.integer
			g.info[out.Ret-1].strided = k == "Clone" && (x.view || x.strided)
		}
		return ok
	case 6: // reshape (not of views: the library may refuse them, and listed findings cover their physical transposition)
		if x.view || len(x.kids) > 0 || x.strided {
			return true
		}
		n := prod(sh)
		var dims []int
		for d := 1; d <= n; d++ {
			if n%d == 0 && g.r.Intn(2) == 0 {
				dims = []int{d, n / d}
				break
			}
		}
		if dims == nil {
			dims = []int{n}
		}
		_, ok := g.do(mk("Reshape", h, dims))
		return ok
	case 7:
		if !numeric || len(sh) == 0 {
			return true
		}
		_, ok := g.do(mk("SetAt", h, []interface{}{coordOf(g.r.Intn(prod(sh)), sh), g.r.Intn(6)}))
		return ok
	case 8:
		if !numeric {
			return true
		}
		if g.r.Intn(2) == 0 {
			_, ok := g.do(mk("Memset", h, []int{g.r.Intn(6)}))
			return ok
		}
		_, ok := g.do(mk("Zero", h, []int{}))
		return ok
	case 9, 10, 11: // arithmetic
		if !numeric || len(hs) >= 8 {
			return true
		}
		fs := []string{"add", "sub", "add", "sub", "mul", "min", "max"}
		f := fs[g.r.Intn(len(fs))]
		form := []string{"TT", "TS", "ST"}[g.r.Intn(3)]
		b := 1 + g.r.Intn(5)
		if form == "TT" {
			c := g.sameShape(h, nil)
			if len(c) == 0 {
				form = "TS"
			} else {
				b = g.pick(c)
			}
		}
		if f == "mul" && (g.maxAbs(h) > 1000 || (form == "TT" && g.maxAbs(b) > 1000)) {
			f = "sub"
		}
		mode, d := "safe", 0
		if f != "min" && f != "max" {
			switch g.r.Intn(4) {
			case 1:
				// in place: not through one-element views (KF-C04-1), not with an operand overlapping the destination
				if (prod(sh) > 1 || !x.view) && (form != "TT" || g.info[b-1].root != x.root) {
					mode = "unsafe"
				}
			case 2, 3:
				c := g.sameShape(h, func(o int) bool {
					return g.plainDest(o) && g.info[o-1].root != x.root && (form != "TT" || g.info[o-1].root != g.info[b-1].root)
				})
				if len(c) > 0 {
					d = g.pick(c)
					mode = []string{"reuse", "incr"}[g.r.Intn(2)]
					if mode == "incr" && g.maxAbs(d) > 100000 {
						mode = "reuse"
					}
				}
			}
		}
		out, ok := g.do(mk("Arith", h, []interface{}{f, form, b, mode, d}))
		if out.IsNew {
			g.info[out.Ret-1].strided = x.view || x.strided
			g.info[out.Ret-1].pending = x.pending
		}
		return ok
	case 12: // unary
		if !numeric || len(hs) >= 8 {
			return true
		}
		f := []string{"neg", "abs", "sign", "square"}[g.r.Intn(4)]
		if f == "square" && g.maxAbs(h) > 1000 {
			f = "neg"
		}
		mode, d := "safe", 0
		switch g.r.Intn(3) {
		case 1:
			if prod(sh) > 1 || !x.view {
				mode = "unsafe"
			}
		case 2:
			c := g.sameShape(h, func(o int) bool { return g.plainDest(o) && g.info[o-1].root != x.root })
			if len(c) > 0 {
				d, mode = g.pick(c), "reuse"
			}
		}
		out, ok := g.do(mk("Unary", h, []interface{}{f, mode, d, 1, 2}))
		if out.IsNew {
			g.info[out.Ret-1].strided = x.view || x.strided
		}
		return ok
	case 13: // comparison with a bool result
		if !numeric || len(hs) >= 8 {
			return true
		}
		f := []string{"lt", "gte", "eq", "ne"}[g.r.Intn(4)]
		form, b := "TS", 1+g.r.Intn(5)
		if c := g.sameShape(h, nil); len(c) > 0 && g.r.Intn(2) == 0 {
			form, b = "TT", g.pick(c)
		}
		out, ok := g.do(mk("Cmp", h, []interface{}{f, form, b, "safe", 0, 0}))
		if out.IsNew {
			g.info[out.Ret-1].boolean = true
			g.info[out.Ret-1].strided = x.view || x.strided
		}
		return ok
	case 14: // reduction
		if !numeric || len(sh) == 0 || len(hs) >= 8 {
			return true
		}
		f := []string{"add", "max", "min"}[g.r.Intn(3)]
		if f == "add" && g.maxAbs(h) > 1e6 {
			f = "max"
		}
		var axes []int
		for _, a := range g.r.Perm(len(sh)) {
			if g.r.Intn(2) == 0 {
				axes = append(axes, a)
			}
		}
		if axes == nil {
			axes = []int{}
		}
		_, ok := g.do(mk("Reduce", h, []interface{}{f, axes}))
		return ok
	case 15: // arg-reduction
		if !numeric || len(sh) == 0 || len(hs) >= 8 {
			return true
		}
		out, ok := g.do(mk("Arg", h, []interface{}{[]string{"max", "min"}[g.r.Intn(2)], g.r.Intn(len(sh)+1) - 1}))
		if out.IsNew {
			g.info[out.Ret-1].integer = true
		}
		return ok
	case 16: // concat / stack
		if !numeric || len(sh) == 0 || len(hs) >= 8 || x.stepped {
			return true
		}
		if x.view {
			return true // listed finding KF-C10-1: vector-shaped views among the operands
		}
		c := g.sameShape(h, func(o int) bool { return !g.info[o-1].view })
		if len(c) == 0 {
			return true
		}
		o := g.pick(c)
		if g.r.Intn(2) == 0 {
			_, ok := g.do(mk("Concat", h, []interface{}{g.r.Intn(len(sh)), []int{h, o}}))
			return ok
		}
		_, ok := g.do(mk("Stack", h, []interface{}{g.r.Intn(len(sh) + 1), []int{h, o}}))
		return ok
	case 17: // repeat
		if !numeric || len(sh) == 0 || len(hs) >= 8 {
			return true
		}
		ax := g.r.Intn(len(sh))
		reps := []int{1 + g.r.Intn(2)}
		if g.r.Intn(2) == 0 {
			reps = make([]int, sh[ax])
			tot := 0
			for i := range reps {
				reps[i] = g.r.Intn(3)
				tot += reps[i]
			}
			if tot == 0 {
				reps[0] = 1
			}
		}
		_, ok := g.do(mk("Repeat", h, []interface{}{ax, reps, "safe", 0}))
		return ok
	case 18: // matrix product
		if !numeric || len(sh) != 2 || len(hs) >= 8 || g.dt.Class != vals.CFloat || g.maxAbs(h) > 1000 {
			return true
		}
		var c []int
		for _, o := range hs {
			so := g.shape(o)
			if len(so) == 2 && so[0] == sh[1] && !g.info[o-1].boolean && !g.info[o-1].integer && g.maxAbs(o) < 1000 {
				c = append(c, o)
			}
		}
		if len(c) == 0 {
			return true
		}
		_, ok := g.do(mk("Product", h, []interface{}{"MatMul", g.pick(c), []int{}, []int{}, "safe", 0}))
		return ok
	case 19: // copy into
		if !numeric {
			return true
		}
		c := g.sameShape(h, func(o int) bool { return g.info[o-1].root != x.root }) // overlapping copies are order dependent
		if len(c) == 0 {
			return true
		}
		_, ok := g.do(mk("Copy", h, []int{g.pick(c)}))
		return ok
	case 20: // hand a finished tensor back to the pool
		if x.view || len(x.kids) > 0 || len(hs) <= 2 {
			return true
		}
		for _, o := range g.info {
			if o.parent == h && !o.dead {
				return true
			}
		}
		tensor.ReturnTensor(t)
		x.dead = true
		g.f.Kill(h)
		op := world.Op{K: "ReturnTensor", H: h, A: json.RawMessage("[]")}
		if !g.emit("return", op, world.ExecOut{}) {
			return false
		}
		return g.afterReturn()
	default: // pool churn: other users of the pools borrow, scribble and return
		var held [][]int
		for sz := 0; sz <= 4; sz++ {
			for k := 0; k < 3; k++ {
				s := tensor.BorrowInts(sz)
				for i := range s {
					s[i] = 7777
				}
				held = append(held, s)
			}
		}
		for _, s := range held {
			tensor.ReturnInts(s)
		}
		return g.emit("churn", world.Op{K: "Churn", H: 0, A: json.RawMessage("[]")}, world.ExecOut{})
	}
}

func main() {
	seed := flag.Int64("seed", 1, "seed")
	traces := flag.Int("traces", 10, "number of traces")
	steps := flag.Int("steps", 40, "max steps per trace")
	outF := flag.String("out", "trace.ndjson", "output")
	dtn := flag.String("dtype", "float64", "element type")
	flag.Parse()
	out, err := os.Create(*outF)
	if err != nil {
		fmt.Fprintln(os.Stderr, err)
		os.Exit(2)
	}
	defer out.Close()
	dt := vals.ByName(*dtn)
	total := 0
	for tr := 0; tr < *traces; tr++ {
		g := &gen{r: rand.New(rand.NewSource(*seed*100003 + int64(tr))), out: out, dt: dt,
			f: world.NewFree(world.Config{D: dt, Pal: vals.Interp, Name: "record"})}
		installHook(g)
		out.Write([]byte(`{"ev":"reset","op":{"k":"Reset","h":0,"a":[]},"err":0,"ret":0,"obs":[],"backs":[],"caller":0,"note":"","pool":[]}` + "\n"))
		n := 5 + g.r.Intn(*steps)
		for i := 0; i < n; i++ {
			if !g.safeStep() {
				break // the trace ends at the first anomaly: TLC reports it at that line
			}
		}
		total += g.n
		if strings.Contains(*outF, "stop-after-first") && g.n > 0 {
			break
		}
	}
	uninstallHook()
	fmt.Printf("recorded %d traces, %d events\n", *traces, total)
}
