// replay executes behaviours emitted by TLC (one JSON case per line) on the real
// gorgonia/tensor library and reports every observation the specification forbids.
package main

import (
	"bufio"
	"encoding/json"
	"flag"
	"fmt"
	"hash/fnv"
	"os"
	"strings"

	"verif/harness/vals"
	"verif/harness/world"
)

func pickDTs(spec string) []*vals.DT {
	var out []*vals.DT
	for _, n := range strings.Split(spec, ",") {
		switch n {
		case "all":
			out = append(out, vals.All...)
		case "numeric":
			for _, d := range vals.All {
				if d.Numeric() {
					out = append(out, d)
				}
			}
		case "ordered":
			for _, d := range vals.All {
				if d.Ordered() {
					out = append(out, d)
				}
			}
		case "float":
			for _, d := range vals.All {
				if d.Class == vals.CFloat {
					out = append(out, d)
				}
			}
		case "floatcomplex":
			for _, d := range vals.All {
				if d.Class == vals.CFloat || d.Class == vals.CComplex {
					out = append(out, d)
				}
			}
		case "sizes": // one element type per element size 1,2,4,8,16 bytes and strings
			for _, m := range []string{"uint8", "int16", "float32", "float64", "complex128", "string", "bool"} {
				out = append(out, vals.ByName(m))
			}
		default:
			d := vals.ByName(n)
			if d == nil {
				fmt.Fprintln(os.Stderr, "unknown dtype", n)
				os.Exit(2)
			}
			out = append(out, d)
		}
	}
	return out
}

func main() {
	casesF := flag.String("cases", "", "ndjson file of cases")
	dts := flag.String("dtypes", "sizes", "element types")
	pals := flag.String("pals", "ident", "palettes")
	rotate := flag.Int("rotate", 0, "if >0: run each case under only this many element types, rotating")
	seed := flag.Int("seed", 0, "seed for the rotation")
	shard := flag.String("shard", "0/1", "i/n: process lines with index = i mod n")
	outF := flag.String("out", "", "divergences (ndjson)")
	statsF := flag.String("stats", "", "stats (json)")
	maxDiv := flag.Int("maxdiv", 200, "stop after this many divergences")
	engine := flag.String("engine", "", "engine: '', f32, f64")
	cfgName := flag.String("cfgname", "default", "configuration label")
	calc := flag.Bool("calc", false, "cross-check the shape-only calculators (C13)")
	opsF := flag.String("ops", "all", "operators substituted for OP: all, or a comma list")
	opRotate := flag.Int("oprotate", 0, "if >0: only this many operators per case, rotating")
	entriesF := flag.String("entries", "func", "entry points: func, method or func,method")
	palRotate := flag.Int("palrotate", 0, "if >0: only this many palettes per case, rotating")
	verbose := flag.Bool("v", false, "print divergences")
	flag.Parse()

	var si, sn int
	fmt.Sscanf(*shard, "%d/%d", &si, &sn)
	if sn == 0 {
		sn = 1
	}
	dtl := pickDTs(*dts)
	var pall []*vals.Palette
	for _, p := range strings.Split(*pals, ",") {
		pp, ok := vals.Palettes[p]
		if !ok {
			fmt.Fprintln(os.Stderr, "unknown palette", p)
			os.Exit(2)
		}
		pall = append(pall, pp)
	}

	f, err := os.Open(*casesF)
	if err != nil {
		fmt.Fprintln(os.Stderr, err)
		os.Exit(2)
	}
	defer f.Close()
	var out *os.File
	if *outF != "" {
		out, err = os.Create(*outF)
		if err != nil {
			fmt.Fprintln(os.Stderr, err)
			os.Exit(2)
		}
		defer out.Close()
	}
	entries := strings.Split(*entriesF, ",")
	stats := world.NewStats()
	var execLog *os.File
	if pfx := os.Getenv("VERIF_EXECLOG"); pfx != "" {
		execLog, _ = os.OpenFile(pfx+"."+strings.ReplaceAll(*shard, "/", "_"), os.O_CREATE|os.O_APPEND|os.O_WRONLY, 0644)
		defer execLog.Close()
	}
	sc := bufio.NewScanner(f)
	sc.Buffer(make([]byte, 1<<20), 1<<28)
	idx := -1
	ndiv := 0
	samples := []json.RawMessage{}
	for sc.Scan() {
		idx++
		if idx%sn != si {
			continue
		}
		line := sc.Bytes()
		var c world.Case
		if err := json.Unmarshal(line, &c); err != nil {
			fmt.Fprintf(os.Stderr, "line %d: %v\n", idx, err)
			os.Exit(2)
		}
		if c.ID == "" {
			c.ID = fmt.Sprintf("%d", idx)
		}
		c.Normalize()
		stats.Cases++
		// the rotations pick by the CONTENT of the behaviour, not by its position in TLC's output (which depends
		// on the scheduling of TLC's workers): the same tree, seed and tier replay the same executions
		hh := fnv.New32a()
		hh.Write(line)
		ridx := int(hh.Sum32() & 0x3fffffff)
		if len(samples) < 2 && len(c.Steps) >= 2 {
			samples = append(samples, append(json.RawMessage{}, line...))
		}
		use := dtl
		if *rotate > 0 && *rotate < len(dtl) {
			use = nil
			for k := 0; k < *rotate; k++ {
				use = append(use, dtl[(ridx+*seed+k*5)%len(dtl)])
			}
		}
		subs := []string{""}
		if kind := world.ElemKind(&c); kind != "" {
			var all []string
			switch kind {
			case "Arith":
				all = world.ArithOps
			case "Cmp":
				all = world.CmpOps
			case "Unary":
				all = world.UnaryOps
			case "Reduce":
				all = world.ReduceOps
			case "Arg":
				all = world.ArgOps
			}
			subs = nil
			if *opsF == "all" {
				subs = all
			} else {
				for _, o := range strings.Split(*opsF, ",") {
					for _, x := range all {
						if x == o {
							subs = append(subs, o)
						}
					}
				}
			}
			if *opRotate > 0 && *opRotate < len(subs) {
				var pick []string
				for k := 0; k < *opRotate; k++ {
					pick = append(pick, subs[(ridx*3+*seed+k*3)%len(subs)])
				}
				subs = pick
			}
		}
		usePal := pall
		if *palRotate > 0 && *palRotate < len(pall) {
			usePal = nil
			for k := 0; k < *palRotate; k++ {
				usePal = append(usePal, pall[(ridx+*seed+k)%len(pall)])
			}
		}
		for di, d := range use {
			if !world.Applicable(&c, d) {
				continue
			}
			for pi, p := range usePal {
				for si, sub := range subs {
					entry := entries[(ridx+di+pi+si)%len(entries)]
					cfg := world.Config{D: d, Pal: p, Engine: *engine, Name: *cfgName, Calc: *calc, Sub: sub, Entry: entry}
					dv, oc := world.Run(&c, cfg, stats)
					if execLog != nil {
						// analysis aid (VERIF_EXECLOG=<prefix>): one line per execution with its outcome
						fmt.Fprintf(execLog, "%d\t%s\t%s\t%s\t%s\t%s\n", oc, d.Name, p.Name, sub, entry, c.PathString())
					}
					if oc == world.Passed && len(c.Steps) > 1 {
						stats.Nontrivial++
					}
					if dv != nil {
						ndiv++
						dv.Sub, dv.Entry, dv.Engine = sub, entry, *engine
						if *verbose {
							fmt.Println("DIVERGENCE", dv.String())
						}
						if out != nil {
							rec := map[string]interface{}{"div": dv, "case": json.RawMessage(line)}
							b, _ := json.Marshal(rec)
							out.Write(b)
							out.Write([]byte("\n"))
						}
					}
				}
			}
		}
		if ndiv >= *maxDiv {
			break
		}
	}
	if err := sc.Err(); err != nil {
		fmt.Fprintln(os.Stderr, err)
		os.Exit(2)
	}
	if *statsF != "" {
		b, _ := json.Marshal(map[string]interface{}{"stats": stats, "samples": samples, "divergences": ndiv})
		os.WriteFile(*statsF, b, 0644)
	}
	fmt.Printf("replay shard %s: cases=%d execs=%d calls=%d compared=%d refused=%d open=%d divergences=%d\n",
		*shard, stats.Cases, stats.Execs, stats.Calls, stats.Compared, stats.Refused, stats.Open, ndiv)
}
