// Package vals holds the element-type descriptors and the Go-side evaluation of
// the value terms that the TLA+ specification emits.  The specification decides
// WHICH elements are combined, in which operand order and where the result is
// stored; the scalar meaning of an operator on a concrete element type is Go's
// own operator (or math routine), which is what this package supplies.
package vals

import (
	"fmt"
	"math"
	"math/cmplx"
	"reflect"

	"github.com/chewxy/math32"
	"gorgonia.org/tensor"
)

type Class int

const (
	CBool Class = iota
	CInt
	CUint
	CFloat
	CComplex
	CString
)

// DT describes one element type.
type DT struct {
	Name  string
	T     tensor.Dtype
	Class Class
	Bits  int
}

var All = []*DT{
	{"bool", tensor.Bool, CBool, 1},
	{"int", tensor.Int, CInt, 64},
	{"int8", tensor.Int8, CInt, 8},
	{"int16", tensor.Int16, CInt, 16},
	{"int32", tensor.Int32, CInt, 32},
	{"int64", tensor.Int64, CInt, 64},
	{"uint", tensor.Uint, CUint, 64},
	{"uint8", tensor.Uint8, CUint, 8},
	{"uint16", tensor.Uint16, CUint, 16},
	{"uint32", tensor.Uint32, CUint, 32},
	{"uint64", tensor.Uint64, CUint, 64},
	{"float32", tensor.Float32, CFloat, 32},
	{"float64", tensor.Float64, CFloat, 64},
	{"complex64", tensor.Complex64, CComplex, 64},
	{"complex128", tensor.Complex128, CComplex, 128},
	{"string", tensor.String, CString, 0},
}

func ByName(n string) *DT {
	for _, d := range All {
		if d.Name == n {
			return d
		}
	}
	return nil
}

func (d *DT) Numeric() bool { return d.Class >= CInt && d.Class <= CComplex }
func (d *DT) Ordered() bool { return d.Class >= CInt && d.Class <= CFloat }
func (d *DT) IsFloat() bool { return d.Class == CFloat }
func (d *DT) IsInt() bool   { return d.Class == CInt || d.Class == CUint }

// MakeSlice returns a fresh []T of length n.
func (d *DT) MakeSlice(n int) reflect.Value {
	return reflect.MakeSlice(reflect.SliceOf(d.T.Type), n, n)
}

// FromInt converts a (small) integer to the element type the way Go's conversion does
// (two's complement truncation for the integer types).
func (d *DT) FromInt(v int64) interface{} {
	switch d.Name {
	case "bool":
		return v != 0
	case "int":
		return int(v)
	case "int8":
		return int8(v)
	case "int16":
		return int16(v)
	case "int32":
		return int32(v)
	case "int64":
		return int64(v)
	case "uint":
		return uint(v)
	case "uint8":
		return uint8(v)
	case "uint16":
		return uint16(v)
	case "uint32":
		return uint32(v)
	case "uint64":
		return uint64(v)
	case "float32":
		return float32(v)
	case "float64":
		return float64(v)
	case "complex64":
		return complex(float32(v), float32(0))
	case "complex128":
		return complex(float64(v), float64(0))
	case "string":
		return fmt.Sprintf("s%d", v)
	}
	panic("unknown dtype " + d.Name)
}

// FromFloat converts a float64 to the element type (floats and complex only; others via int).
func (d *DT) FromFloat(v float64) interface{} {
	switch d.Name {
	case "float32":
		return float32(v)
	case "float64":
		return v
	case "complex64":
		return complex(float32(v), float32(0))
	case "complex128":
		return complex(v, 0)
	}
	return d.FromInt(int64(v))
}

func (d *DT) Zero() interface{} { return reflect.Zero(d.T.Type).Interface() }

// ToInt64 maps a value of the element type to an integer if it is integer valued.
func ToInt64(v interface{}) (int64, bool) {
	switch x := v.(type) {
	case bool:
		if x {
			return 1, true
		}
		return 0, true
	case int:
		return int64(x), true
	case int8:
		return int64(x), true
	case int16:
		return int64(x), true
	case int32:
		return int64(x), true
	case int64:
		return x, true
	case uint:
		return int64(x), true
	case uint8:
		return int64(x), true
	case uint16:
		return int64(x), true
	case uint32:
		return int64(x), true
	case uint64:
		return int64(x), true
	case float32:
		if float32(int64(x)) == x {
			return int64(x), true
		}
	case float64:
		if float64(int64(x)) == x {
			return int64(x), true
		}
	case complex64:
		if imag(x) == 0 && float32(int64(real(x))) == real(x) {
			return int64(real(x)), true
		}
	case complex128:
		if imag(x) == 0 && float64(int64(real(x))) == real(x) {
			return int64(real(x)), true
		}
	}
	return 0, false
}

// Eq compares two values of the same element type exactly; NaN equals NaN.
func Eq(a, b interface{}) bool {
	switch x := a.(type) {
	case float32:
		y, ok := b.(float32)
		return ok && (x == y || (x != x && y != y))
	case float64:
		y, ok := b.(float64)
		return ok && (x == y || (x != x && y != y))
	case complex64:
		y, ok := b.(complex64)
		return ok && Eq(real(x), real(y)) && Eq(imag(x), imag(y))
	case complex128:
		y, ok := b.(complex128)
		return ok && Eq(real(x), real(y)) && Eq(imag(x), imag(y))
	}
	return a == b
}

func ulpClose64(x, y float64, ulps float64) bool {
	if x == y || (x != x && y != y) {
		return true
	}
	if math.IsInf(x, 0) || math.IsInf(y, 0) || x != x || y != y {
		return false
	}
	d := math.Abs(x - y)
	m := math.Max(math.Abs(x), math.Abs(y))
	return d <= ulps*m*0x1p-52 || d <= ulps*0x1p-1022
}
func ulpClose32(x, y float32, ulps float64) bool {
	if x == y || (x != x && y != y) {
		return true
	}
	fx, fy := float64(x), float64(y)
	if math.IsInf(fx, 0) || math.IsInf(fy, 0) || x != x || y != y {
		return false
	}
	d := math.Abs(fx - fy)
	m := math.Max(math.Abs(fx), math.Abs(fy))
	return d <= ulps*m*0x1p-23 || d <= ulps*0x1p-126
}

// Close compares within `ulps` units in the last place (floats/complex); exact otherwise.
func Close(a, b interface{}, ulps float64) bool {
	switch x := a.(type) {
	case float32:
		y, ok := b.(float32)
		return ok && ulpClose32(x, y, ulps)
	case float64:
		y, ok := b.(float64)
		return ok && ulpClose64(x, y, ulps)
	case complex64:
		y, ok := b.(complex64)
		if !ok {
			return false
		}
		if ulpClose32(real(x), real(y), ulps) && ulpClose32(imag(x), imag(y), ulps) {
			return true
		}
		// complex results: error relative to the modulus
		d := cmplx.Abs(complex128(x - y))
		m := math.Max(cmplx.Abs(complex128(x)), cmplx.Abs(complex128(y)))
		return d <= ulps*m*0x1p-23
	case complex128:
		y, ok := b.(complex128)
		if !ok {
			return false
		}
		if ulpClose64(real(x), real(y), ulps) && ulpClose64(imag(x), imag(y), ulps) {
			return true
		}
		d := cmplx.Abs(x - y)
		m := math.Max(cmplx.Abs(x), cmplx.Abs(y))
		return d <= ulps*m*0x1p-52
	}
	return Eq(a, b)
}

var _ = math32.Sqrt

// Represents: can the element type hold the integer v exactly?
func (d *DT) Represents(v int64) bool {
	switch d.Class {
	case CInt:
		if d.Bits == 64 {
			return true
		}
		lim := int64(1) << uint(d.Bits-1)
		return v >= -lim && v < lim
	case CUint:
		if v < 0 {
			return false
		}
		if d.Bits == 64 {
			return true
		}
		return v < int64(1)<<uint(d.Bits)
	case CFloat:
		if d.Bits == 32 {
			return v > -(1<<24) && v < (1<<24)
		}
		return v > -(1<<53) && v < (1<<53)
	case CComplex:
		if d.Bits == 64 {
			return v > -(1<<24) && v < (1<<24)
		}
		return v > -(1<<53) && v < (1<<53)
	}
	return false
}
