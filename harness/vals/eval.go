package vals

import (
	"encoding/json"
	"fmt"
	"math"
	"math/cmplx"

	"github.com/chewxy/math32"
)

// Term is a value term emitted by the specification (see spec/Tensor.tla).
type Term struct {
	Head string
	N    int     // "c", "k", "ix"
	Pos  []int   // "argm": the positions of the unmasked elements
	F    string  // "un", "bin", "fold"
	Args []*Term // operands
}

func (t *Term) String() string {
	switch t.Head {
	case "c", "k", "ix":
		return fmt.Sprintf("%s%d", t.Head, t.N)
	case "z":
		return "0"
	case "dot":
		s := "dot("
		for i := 0; i+1 < len(t.Args); i += 2 {
			s += t.Args[i].String() + "*" + t.Args[i+1].String() + " "
		}
		return s + ")"
	}
	s := t.Head + ":" + t.F + "("
	for i, a := range t.Args {
		if i > 0 {
			s += ","
		}
		s += a.String()
	}
	return s + ")"
}

func ParseTerm(raw json.RawMessage) (*Term, error) {
	var arr []json.RawMessage
	if err := json.Unmarshal(raw, &arr); err != nil {
		return nil, fmt.Errorf("term %s: %v", string(raw), err)
	}
	if len(arr) == 0 {
		return nil, nil
	}
	var head string
	if err := json.Unmarshal(arr[0], &head); err != nil {
		return nil, fmt.Errorf("term head %s: %v", string(raw), err)
	}
	t := &Term{Head: head}
	sub := func(r json.RawMessage) error {
		s, err := ParseTerm(r)
		if err != nil {
			return err
		}
		t.Args = append(t.Args, s)
		return nil
	}
	switch head {
	case "c", "k", "ix":
		return t, json.Unmarshal(arr[1], &t.N)
	case "z":
		return t, nil
	case "un":
		if err := json.Unmarshal(arr[1], &t.F); err != nil {
			return nil, err
		}
		return t, sub(arr[2])
	case "b":
		return t, sub(arr[1])
	case "clamp":
		for _, r := range arr[1:] {
			if err := sub(r); err != nil {
				return nil, err
			}
		}
		return t, nil
	case "and", "or":
		if err := sub(arr[1]); err != nil {
			return nil, err
		}
		return t, sub(arr[2])
	case "fill", "t", "f":
		return t, nil
	case "bin", "cmp":
		if err := json.Unmarshal(arr[1], &t.F); err != nil {
			return nil, err
		}
		if err := sub(arr[2]); err != nil {
			return nil, err
		}
		return t, sub(arr[3])
	case "argm":
		if err := json.Unmarshal(arr[1], &t.F); err != nil {
			return nil, err
		}
		var xs []json.RawMessage
		if err := json.Unmarshal(arr[2], &xs); err != nil {
			return nil, err
		}
		for _, x := range xs {
			if err := sub(x); err != nil {
				return nil, err
			}
		}
		return t, json.Unmarshal(arr[3], &t.Pos)
	case "fold", "arg":
		if err := json.Unmarshal(arr[1], &t.F); err != nil {
			return nil, err
		}
		var xs []json.RawMessage
		if err := json.Unmarshal(arr[2], &xs); err != nil {
			return nil, err
		}
		for _, x := range xs {
			if err := sub(x); err != nil {
				return nil, err
			}
		}
		return t, nil
	case "dot":
		var prs [][]json.RawMessage
		if err := json.Unmarshal(arr[1], &prs); err != nil {
			return nil, err
		}
		for _, p := range prs {
			if err := sub(p[0]); err != nil {
				return nil, err
			}
			if err := sub(p[1]); err != nil {
				return nil, err
			}
		}
		return t, nil
	}
	return nil, fmt.Errorf("unknown term head %q", head)
}

// Palette supplies the concrete initial cell values and scalar constants.
type Palette struct {
	Name  string
	Cell  func(d *DT, id int) interface{}
	Const func(d *DT, j int) interface{}
}

// Result of an evaluation.
type Val struct {
	Tol   float64 // absolute tolerance for accumulations of non-integers (n * eps * sum of magnitudes)
	V     interface{}
	Exact bool // false: compare with tolerance (result of a maths routine / accumulation of non-integers)
	Open  bool // true: the property leaves this position open (integer division by zero, ...)
}

type Evaluator struct {
	D      *DT
	Pal    *Palette
	Sub    string           // the operator substituted for the placeholder "OP"
	CellDT func(id int) *DT // element type of the allocation a cell belongs to (nil: D)
}

var subAlias = map[string]string{"sum": "add", "reduce": "add", "argmax": "max", "argmin": "min"}

func (e *Evaluator) f(name string) string {
	if name == "OP" {
		if a, ok := subAlias[e.Sub]; ok {
			return a
		}
		return e.Sub
	}
	return name
}

func (e *Evaluator) Eval(t *Term) Val {
	switch t.Head {
	case "c":
		d := e.D
		if e.CellDT != nil {
			d = e.CellDT(t.N)
		}
		return Val{V: e.Pal.Cell(d, t.N), Exact: true}
	case "k":
		return Val{V: e.Pal.Const(e.D, t.N), Exact: true}
	case "z":
		return Val{V: e.D.Zero(), Exact: true}
	case "ix":
		return Val{V: t.N, Exact: true}
	case "fill":
		return Val{V: FillValue(e.D), Exact: true}
	case "t":
		return Val{V: true, Exact: true}
	case "f":
		return Val{V: false, Exact: true}
	case "and", "or":
		a, b := e.Eval(t.Args[0]), e.Eval(t.Args[1])
		if a.Open || b.Open {
			return Val{Open: true}
		}
		if t.Head == "and" {
			return Val{V: a.V.(bool) && b.V.(bool), Exact: true}
		}
		return Val{V: a.V.(bool) || b.V.(bool), Exact: true}
	case "un":
		a := e.Eval(t.Args[0])
		if a.Open {
			return a
		}
		if e.f(t.F) == "clamp" {
			// the placeholder operator substituted by clamp: the bounds are the constants the replayer passes (K(1), K(2))
			lo, hi := e.Pal.Const(e.D, 1), e.Pal.Const(e.D, 2)
			lt, ok1 := Compare(e.D, "lt", a.V, lo)
			gt, ok2 := Compare(e.D, "gt", a.V, hi)
			if !ok1 || !ok2 {
				return Val{Open: true}
			}
			if lt {
				return Val{V: lo, Exact: true}
			}
			if gt {
				return Val{V: hi, Exact: true}
			}
			return Val{V: a.V, Exact: a.Exact}
		}
		v, exact, ok := Unary(e.D, e.f(t.F), a.V)
		if !ok {
			return Val{Open: true}
		}
		return Val{V: v, Exact: exact && a.Exact}
	case "bin":
		a, b := e.Eval(t.Args[0]), e.Eval(t.Args[1])
		if a.Open || b.Open {
			return Val{Open: true}
		}
		v, exact, ok := Binary(e.D, e.f(t.F), a.V, b.V)
		if !ok {
			return Val{Open: true}
		}
		return Val{V: v, Exact: exact && a.Exact && b.Exact}
	case "clamp":
		a, lo, hi := e.Eval(t.Args[0]), e.Eval(t.Args[1]), e.Eval(t.Args[2])
		if a.Open {
			return a
		}
		lt, ok1 := Compare(e.D, "lt", a.V, lo.V)
		gt, ok2 := Compare(e.D, "gt", a.V, hi.V)
		if !ok1 || !ok2 {
			return Val{Open: true}
		}
		if lt {
			return Val{V: lo.V, Exact: true}
		}
		if gt {
			return Val{V: hi.V, Exact: true}
		}
		return Val{V: a.V, Exact: a.Exact}
	case "cmp":
		a, b := e.Eval(t.Args[0]), e.Eval(t.Args[1])
		if a.Open || b.Open {
			return Val{Open: true}
		}
		r, ok := Compare(e.D, e.f(t.F), a.V, b.V)
		if !ok {
			return Val{Open: true}
		}
		return Val{V: r, Exact: true}
	case "b": // truth value in the element type: 1 / 0
		a := e.Eval(t.Args[0])
		if a.Open {
			return a
		}
		if a.V.(bool) {
			return Val{V: e.D.FromInt(1), Exact: true}
		}
		return Val{V: e.D.FromInt(0), Exact: true}
	case "fold":
		var acc Val
		sumAbs := 0.0
		for i, x := range t.Args {
			xv := e.Eval(x)
			if xv.Open {
				return xv
			}
			sumAbs += Magnitude(xv.V)
			if i == 0 {
				acc = xv
				continue
			}
			v, exact, ok := Binary(e.D, e.f(t.F), acc.V, xv.V)
			if !ok {
				return Val{Open: true}
			}
			acc = Val{V: v, Exact: exact && acc.Exact && xv.Exact}
		}
		// accumulation of non-integers: rounding order is not specified
		if ff := e.f(t.F); e.D.Class >= CFloat && len(t.Args) > 2 && (ff == "add" || ff == "mul") {
			acc.Exact = false
			acc.Tol = 4 * float64(len(t.Args)) * Eps(e.D) * sumAbs
		}
		return acc
	case "argm":
		r := e.Eval(&Term{Head: "arg", F: t.F, Args: t.Args})
		if r.Open {
			return r
		}
		return Val{V: t.Pos[r.V.(int)], Exact: true}
	case "arg":
		best := -1
		var bv interface{}
		for i, x := range t.Args {
			xv := e.Eval(x)
			if xv.Open {
				return xv
			}
			if f, ok := xv.V.(float64); ok && f != f {
				return Val{Open: true} // NaN: left open
			}
			if f, ok := xv.V.(float32); ok && f != f {
				return Val{Open: true}
			}
			if best < 0 {
				best, bv = i, xv.V
				continue
			}
			op := "gt"
			if e.f(t.F) == "min" {
				op = "lt"
			}
			better, ok := Compare(e.D, op, xv.V, bv)
			if !ok {
				return Val{Open: true}
			}
			if better {
				best, bv = i, xv.V
			}
		}
		return Val{V: best, Exact: true}
	case "dot":
		acc := Val{V: e.D.Zero(), Exact: true}
		sumAbs := 0.0
		for i := 0; i+1 < len(t.Args); i += 2 {
			a, b := e.Eval(t.Args[i]), e.Eval(t.Args[i+1])
			if a.Open || b.Open {
				return Val{Open: true}
			}
			p, _, ok := Binary(e.D, "mul", a.V, b.V)
			if !ok {
				return Val{Open: true}
			}
			sumAbs += Magnitude(p)
			s, _, ok := Binary(e.D, "add", acc.V, p)
			if !ok {
				return Val{Open: true}
			}
			acc = Val{V: s, Exact: acc.Exact && a.Exact && b.Exact}
		}
		if e.D.Class >= CFloat {
			acc.Exact = false
			acc.Tol = 4 * float64(len(t.Args)) * Eps(e.D) * sumAbs
		}
		return acc
	}
	panic("eval: unknown term " + t.Head)
}

type integer interface {
	~int | ~int8 | ~int16 | ~int32 | ~int64 | ~uint | ~uint8 | ~uint16 | ~uint32 | ~uint64
}

func binInt[T integer](op string, a, b T) (T, bool) {
	switch op {
	case "add":
		return a + b, true
	case "sub":
		return a - b, true
	case "mul":
		return a * b, true
	case "div":
		if b == 0 {
			return 0, false
		}
		return a / b, true
	case "mod":
		if b == 0 {
			return 0, false
		}
		return a % b, true
	case "pow":
		return T(math.Pow(float64(a), float64(b))), true
	case "min":
		if a < b {
			return a, true
		}
		return b, true
	case "max":
		if a > b {
			return a, true
		}
		return b, true
	}
	panic("binInt: " + op)
}

func powIntExact(a, b float64) bool {
	// conversion of a non-representable float to an integer type is implementation specific
	r := math.Pow(a, b)
	return !(math.IsNaN(r) || math.IsInf(r, 0)) && math.Abs(r) < 1<<62 && r == math.Trunc(r)
}

func binF64(op string, a, b float64) (float64, bool) {
	switch op {
	case "add":
		return a + b, true
	case "sub":
		return a - b, true
	case "mul":
		return a * b, true
	case "div":
		return a / b, true
	case "mod":
		return math.Mod(a, b), false
	case "pow":
		return math.Pow(a, b), false
	case "min":
		if a < b {
			return a, true
		}
		return b, true
	case "max":
		if a > b {
			return a, true
		}
		return b, true
	}
	panic("binF64: " + op)
}

func binF32(op string, a, b float32) (float32, bool) {
	switch op {
	case "add":
		return a + b, true
	case "sub":
		return a - b, true
	case "mul":
		return a * b, true
	case "div":
		return a / b, true
	case "mod":
		return math32.Mod(a, b), false
	case "pow":
		return math32.Pow(a, b), false
	case "min":
		if a < b {
			return a, true
		}
		return b, true
	case "max":
		if a > b {
			return a, true
		}
		return b, true
	}
	panic("binF32: " + op)
}

// Binary evaluates `a op b` with Go's operator of the element type.
// exact=false: compare with tolerance.  ok=false: the property leaves the position open.
func Binary(d *DT, op string, a, b interface{}) (v interface{}, exact bool, ok bool) {
	exact = true
	switch x := a.(type) {
	case int:
		v, ok = binInt(op, x, b.(int))
	case int8:
		v, ok = binInt(op, x, b.(int8))
	case int16:
		v, ok = binInt(op, x, b.(int16))
	case int32:
		v, ok = binInt(op, x, b.(int32))
	case int64:
		v, ok = binInt(op, x, b.(int64))
	case uint:
		v, ok = binInt(op, x, b.(uint))
	case uint8:
		v, ok = binInt(op, x, b.(uint8))
	case uint16:
		v, ok = binInt(op, x, b.(uint16))
	case uint32:
		v, ok = binInt(op, x, b.(uint32))
	case uint64:
		v, ok = binInt(op, x, b.(uint64))
	case float32:
		var e bool
		y := b.(float32)
		if (op == "min" || op == "max") && (x != x || y != y) {
			return nil, false, false // no Go operator defines min/max of NaN: left open
		}
		v, e = binF32(op, x, y)
		return v, e, true
	case float64:
		var e bool
		y := b.(float64)
		if (op == "min" || op == "max") && (x != x || y != y) {
			return nil, false, false
		}
		v, e = binF64(op, x, y)
		return v, e, true
	case complex64:
		y := b.(complex64)
		switch op {
		case "add":
			return x + y, true, true
		case "sub":
			return x - y, true, true
		case "mul":
			return x * y, true, true
		case "div":
			return x / y, false, true
		case "pow":
			return complex64(cmplx.Pow(complex128(x), complex128(y))), false, true
		}
		return nil, false, false
	case complex128:
		y := b.(complex128)
		switch op {
		case "add":
			return x + y, true, true
		case "sub":
			return x - y, true, true
		case "mul":
			return x * y, true, true
		case "div":
			return x / y, false, true
		case "pow":
			return cmplx.Pow(x, y), false, true
		}
		return nil, false, false
	default:
		return nil, false, false
	}
	if ok && op == "pow" && d.IsInt() {
		fa, _ := ToInt64(a)
		fb, _ := ToInt64(b)
		af, bf := float64(fa), float64(fb)
		if d.Class == CUint {
			// uint64 values above 2^63 do not occur in the palettes
		}
		if !powIntExact(af, bf) {
			return nil, false, false
		}
	}
	return v, exact, ok
}

type signed interface {
	~int | ~int8 | ~int16 | ~int32 | ~int64
}
type unsigned interface {
	~uint | ~uint8 | ~uint16 | ~uint32 | ~uint64
}

func unSigned[T signed](op string, a T) (T, bool) {
	switch op {
	case "neg":
		return -a, true
	case "square":
		return a * a, true
	case "cube":
		return a * a * a, true
	case "abs":
		if a < 0 {
			return -a, true
		}
		return a, true
	case "sign":
		if a < 0 {
			return -1, true
		}
		if a > 0 {
			return 1, true
		}
		return 0, true
	case "inv":
		if a == 0 {
			return 0, false
		}
		return 1 / a, true
	}
	return 0, false
}
func unUnsigned[T unsigned](op string, a T) (T, bool) {
	switch op {
	case "neg":
		return -a, true
	case "square":
		return a * a, true
	case "cube":
		return a * a * a, true
	case "abs":
		return a, true
	case "sign":
		if a > 0 {
			return 1, true
		}
		return 0, true
	case "inv":
		if a == 0 {
			return 0, false
		}
		return 1 / a, true
	}
	return 0, false
}

func unF64(op string, a float64) (float64, bool, bool) {
	switch op {
	case "neg":
		return -a, true, true
	case "inv":
		return 1 / a, true, true
	case "square":
		return a * a, true, true
	case "cube":
		return a * a * a, true, true
	case "abs":
		return math.Abs(a), true, true
	case "sign":
		if a < 0 {
			return -1, true, true
		}
		if a > 0 {
			return 1, true, true
		}
		return a, true, true // 0 and NaN map to themselves
	case "sqrt":
		return math.Sqrt(a), false, true
	case "cbrt":
		return math.Cbrt(a), false, true
	case "invsqrt":
		return 1 / math.Sqrt(a), false, true
	case "exp":
		return math.Exp(a), false, true
	case "log":
		return math.Log(a), false, true
	case "log2":
		return math.Log2(a), false, true
	case "log10":
		return math.Log10(a), false, true
	case "tanh":
		return math.Tanh(a), false, true
	case "log1p":
		return math.Log1p(a), false, true
	case "expm1":
		return math.Expm1(a), false, true
	}
	return 0, false, false
}

func unF32(op string, a float32) (float32, bool, bool) {
	switch op {
	case "neg":
		return -a, true, true
	case "inv":
		return 1 / a, true, true
	case "square":
		return a * a, true, true
	case "cube":
		return a * a * a, true, true
	case "abs":
		return math32.Abs(a), true, true
	case "sign":
		if a < 0 {
			return -1, true, true
		}
		if a > 0 {
			return 1, true, true
		}
		return a, true, true
	case "sqrt":
		return math32.Sqrt(a), false, true
	case "cbrt":
		return math32.Cbrt(a), false, true
	case "invsqrt":
		return 1 / math32.Sqrt(a), false, true
	case "exp":
		return math32.Exp(a), false, true
	case "log":
		return math32.Log(a), false, true
	case "log2":
		return math32.Log2(a), false, true
	case "log10":
		return math32.Log10(a), false, true
	case "tanh":
		return float32(math.Tanh(float64(a))), false, true
	case "log1p":
		return math32.Log1p(a), false, true
	case "expm1":
		return math32.Expm1(a), false, true
	}
	return 0, false, false
}

func unC128(op string, a complex128) (complex128, bool, bool) {
	switch op {
	case "neg":
		return -a, true, true
	case "inv":
		return 1 / a, false, true
	case "square":
		return a * a, true, true
	case "cube":
		return a * a * a, true, true
	case "abs":
		return complex(cmplx.Abs(a), 0), false, true
	case "sqrt":
		return cmplx.Sqrt(a), false, true
	case "invsqrt":
		return 1 / cmplx.Sqrt(a), false, true
	case "exp":
		return cmplx.Exp(a), false, true
	case "log":
		return cmplx.Log(a), false, true
	case "log10":
		return cmplx.Log10(a), false, true
	case "tanh":
		return cmplx.Tanh(a), false, true
	}
	return 0, false, false
}

// Unary evaluates f(a) with Go's routine of the element type.
func Unary(d *DT, op string, a interface{}) (v interface{}, exact bool, ok bool) {
	if op == "apply" {
		switch x := a.(type) {
		case bool:
			return !x, true, true
		case string:
			return x + "!", true, true
		}
		three, one := d.FromInt(3), d.FromInt(1)
		m, _, ok1 := Binary(d, "mul", a, three)
		if !ok1 {
			return nil, false, false
		}
		r, _, ok2 := Binary(d, "add", m, one)
		return r, true, ok2
	}
	switch x := a.(type) {
	case int:
		v, ok = unSigned(op, x)
		return v, true, ok
	case int8:
		v, ok = unSigned(op, x)
		return v, true, ok
	case int16:
		v, ok = unSigned(op, x)
		return v, true, ok
	case int32:
		v, ok = unSigned(op, x)
		return v, true, ok
	case int64:
		v, ok = unSigned(op, x)
		return v, true, ok
	case uint:
		v, ok = unUnsigned(op, x)
		return v, true, ok
	case uint8:
		v, ok = unUnsigned(op, x)
		return v, true, ok
	case uint16:
		v, ok = unUnsigned(op, x)
		return v, true, ok
	case uint32:
		v, ok = unUnsigned(op, x)
		return v, true, ok
	case uint64:
		v, ok = unUnsigned(op, x)
		return v, true, ok
	case float32:
		return unF32(op, x)
	case float64:
		return unF64(op, x)
	case complex64:
		r, e, k := unC128(op, complex128(x))
		return complex64(r), e && (op == "neg"), k
	case complex128:
		return unC128(op, x)
	}
	return nil, false, false
}

func cmpOrd[T integer | ~float32 | ~float64 | ~string](op string, a, b T) bool {
	switch op {
	case "lt":
		return a < b
	case "gt":
		return a > b
	case "lte":
		return a <= b
	case "gte":
		return a >= b
	case "eq":
		return a == b
	case "ne":
		return a != b
	}
	panic("cmp " + op)
}

// Compare evaluates Go's comparison a op b.
func Compare(d *DT, op string, a, b interface{}) (r bool, ok bool) {
	switch x := a.(type) {
	case int:
		return cmpOrd(op, x, b.(int)), true
	case int8:
		return cmpOrd(op, x, b.(int8)), true
	case int16:
		return cmpOrd(op, x, b.(int16)), true
	case int32:
		return cmpOrd(op, x, b.(int32)), true
	case int64:
		return cmpOrd(op, x, b.(int64)), true
	case uint:
		return cmpOrd(op, x, b.(uint)), true
	case uint8:
		return cmpOrd(op, x, b.(uint8)), true
	case uint16:
		return cmpOrd(op, x, b.(uint16)), true
	case uint32:
		return cmpOrd(op, x, b.(uint32)), true
	case uint64:
		return cmpOrd(op, x, b.(uint64)), true
	case float32:
		return cmpOrd(op, x, b.(float32)), true
	case float64:
		return cmpOrd(op, x, b.(float64)), true
	case string:
		return cmpOrd(op, x, b.(string)), true
	case bool:
		switch op {
		case "eq":
			return x == b.(bool), true
		case "ne":
			return x != b.(bool), true
		}
	case complex64:
		switch op {
		case "eq":
			return x == b.(complex64), true
		case "ne":
			return x != b.(complex64), true
		}
	case complex128:
		switch op {
		case "eq":
			return x == b.(complex128), true
		case "ne":
			return x != b.(complex128), true
		}
	}
	return false, false
}

// Eps is the machine epsilon of the (real part of the) element type.
func Eps(d *DT) float64 {
	switch d.Name {
	case "float32", "complex64":
		return 0x1p-23
	}
	return 0x1p-52
}

// Magnitude of a numeric value as a float64 (0 for non-numeric values).
func Magnitude(v interface{}) float64 {
	switch x := v.(type) {
	case float32:
		return math.Abs(float64(x))
	case float64:
		return math.Abs(x)
	case complex64:
		return cmplx.Abs(complex128(x))
	case complex128:
		return cmplx.Abs(x)
	}
	if i, ok := ToInt64(v); ok {
		return math.Abs(float64(i))
	}
	return 0
}

// Within: |a-b| <= tol (floats and complex); false for other types.
func Within(a, b interface{}, tol float64) bool {
	switch x := a.(type) {
	case float32:
		y, ok := b.(float32)
		return ok && math.Abs(float64(x)-float64(y)) <= tol
	case float64:
		y, ok := b.(float64)
		return ok && math.Abs(x-y) <= tol
	case complex64:
		y, ok := b.(complex64)
		return ok && cmplx.Abs(complex128(x)-complex128(y)) <= tol
	case complex128:
		y, ok := b.(complex128)
		return ok && cmplx.Abs(x-y) <= tol
	}
	return false
}

// FillValue is the documented default fill value of a masked tensor of the element type.
func FillValue(d *DT) interface{} {
	switch d.Name {
	case "bool":
		return true
	case "int":
		return int(999999)
	case "int8":
		return int8(99)
	case "int16":
		return int16(9999)
	case "int32":
		return int32(999999)
	case "int64":
		return int64(999999)
	case "uint":
		return uint(999999)
	case "uint8":
		return uint8(99)
	case "uint16":
		return uint16(9999)
	case "uint32":
		return uint32(999999)
	case "uint64":
		return uint64(999999)
	case "float32":
		return float32(1.0e20)
	case "float64":
		return float64(1.0e20)
	case "complex64":
		return complex64(1.0e20 + 0i)
	case "complex128":
		return complex128(1.0e20 + 0i)
	case "string":
		return "N/A"
	}
	return nil
}
