package vals

import (
	"fmt"
	"math"
)

func small(d *DT, v int64) int64 {
	// keep within the smallest integer types while staying pairwise distinct as long as possible
	if d.Bits == 8 {
		if d.Class == CInt {
			return v%127 + 0
		}
		return v % 251
	}
	return v
}

// Ident: initial value of cell i is i (pairwise distinct), constants are 100+j.
// With distinct values the element sequence of a tensor IS its cell map.
var Ident = &Palette{
	Name: "ident",
	Cell: func(d *DT, id int) interface{} {
		switch d.Class {
		case CBool:
			return id%2 == 1
		case CString:
			return fmt.Sprintf("s%d", id)
		case CComplex:
			if d.Bits == 64 {
				return complex(float32(id), float32(-(id % 5)))
			}
			return complex(float64(id), float64(-(id % 5)))
		}
		return d.FromInt(small(d, int64(id)))
	},
	Const: func(d *DT, j int) interface{} {
		switch d.Class {
		case CBool:
			return j%2 == 0
		case CString:
			return fmt.Sprintf("k%d", j)
		}
		return d.FromInt(100 + int64(j))
	},
}

// Signed: mixes negative values, zero and repeated values (ties).
var Signed = &Palette{
	Name: "signed",
	Cell: func(d *DT, id int) interface{} {
		switch d.Class {
		case CBool:
			return id%3 == 0
		case CString:
			return fmt.Sprintf("t%d", (id*7)%5)
		case CComplex:
			re, im := float64((id*5)%7-3), float64((id*3)%5-2)
			if d.Bits == 64 {
				return complex(float32(re), float32(im))
			}
			return complex(re, im)
		case CUint:
			return d.FromInt(int64((id * 5) % 7))
		}
		return d.FromInt(int64((id*5)%7 - 3))
	},
	Const: func(d *DT, j int) interface{} {
		switch d.Class {
		case CBool:
			return j%2 == 1
		case CString:
			return fmt.Sprintf("t%d", j%5)
		case CUint:
			return d.FromInt(int64(j%3 + 1))
		}
		return d.FromInt(int64(j%5 - 2))
	},
}

func maxOf(d *DT) int64 {
	switch d.Class {
	case CInt:
		if d.Bits == 64 {
			return math.MaxInt64
		}
		return 1<<(uint(d.Bits)-1) - 1
	case CUint:
		if d.Bits == 64 {
			return -1 // all ones after conversion
		}
		return 1<<uint(d.Bits) - 1
	}
	return 1 << 20
}

// Edge: values at the overflow edge of the integer types, large/small magnitudes for floats.
var Edge = &Palette{
	Name: "edge",
	Cell: func(d *DT, id int) interface{} {
		switch d.Class {
		case CBool:
			return id%2 == 0
		case CString:
			return fmt.Sprintf("%c", 'a'+rune(id%26))
		case CFloat:
			vs := []float64{1e30, -1e30, 1e-30, 3, -0.5, 2.5, 1e38, 7}
			return d.FromFloat(vs[id%len(vs)])
		case CComplex:
			vs := []float64{1e15, -2, 0.5, 3}
			re, im := vs[id%len(vs)], vs[(id+1)%len(vs)]
			if d.Bits == 64 {
				return complex(float32(re), float32(im))
			}
			return complex(re, im)
		case CInt:
			m := maxOf(d)
			switch id % 4 {
			case 0:
				return d.FromInt(m - int64(id))
			case 1:
				return d.FromInt(-m - 1 + int64(id))
			case 2:
				return d.FromInt(int64(id))
			}
			return d.FromInt(m/2 + int64(id))
		case CUint:
			m := maxOf(d)
			switch id % 3 {
			case 0:
				return d.FromInt(m - int64(id))
			case 1:
				return d.FromInt(int64(id))
			}
			return d.FromInt(m/2 + 1 + int64(id))
		}
		return d.FromInt(int64(id))
	},
	Const: func(d *DT, j int) interface{} {
		switch d.Class {
		case CBool:
			return true
		case CString:
			return "m"
		case CFloat, CComplex:
			return d.FromFloat(1e20)
		}
		return d.FromInt(maxOf(d) - int64(j))
	},
}

// NonFinite: NaN, infinities and signed zeros for the float types (small ints elsewhere).
var NonFinite = &Palette{
	Name: "nonfinite",
	Cell: func(d *DT, id int) interface{} {
		if d.Class == CFloat {
			vs := []float64{math.NaN(), math.Inf(1), math.Inf(-1), 0, math.Copysign(0, -1), 1, -2, 3}
			return d.FromFloat(vs[(id*3)%len(vs)])
		}
		if d.Class == CComplex {
			vs := []float64{math.Inf(1), 0, 1, -2, math.NaN()}
			re, im := vs[(id*2)%len(vs)], vs[(id+3)%len(vs)]
			if d.Bits == 64 {
				return complex(float32(re), float32(im))
			}
			return complex(re, im)
		}
		return Signed.Cell(d, id)
	},
	Const: func(d *DT, j int) interface{} {
		if d.Class == CFloat {
			vs := []float64{math.NaN(), math.Inf(1), 0, 2}
			return d.FromFloat(vs[j%len(vs)])
		}
		return Signed.Const(d, j)
	},
}

// ZeroDiv: zeros among the divisors.
var ZeroDiv = &Palette{
	Name: "zerodiv",
	Cell: func(d *DT, id int) interface{} {
		switch d.Class {
		case CBool:
			return id%2 == 0
		case CString:
			return fmt.Sprintf("z%d", id%3)
		case CComplex:
			return d.FromInt(int64(id % 3))
		}
		return d.FromInt(int64(id % 3))
	},
	Const: func(d *DT, j int) interface{} {
		switch d.Class {
		case CBool:
			return false
		case CString:
			return "z0"
		}
		return d.FromInt(0)
	},
}

// Interp: exactly the values of spec/Interp.tla (CellVal, ConstVal): small positive integers that every
// numeric element type represents exactly.
var Interp = &Palette{
	Name: "interp",
	Cell: func(d *DT, id int) interface{} {
		v := int64((id*7)%11 + 1)
		switch d.Class {
		case CBool:
			return v%2 == 1
		case CString:
			return fmt.Sprintf("%d", v)
		}
		return d.FromInt(v)
	},
	Const: func(d *DT, j int) interface{} {
		v := int64(j%3 + 2)
		switch d.Class {
		case CBool:
			return true
		case CString:
			return fmt.Sprintf("%d", v)
		}
		return d.FromInt(v)
	},
}

var Palettes = map[string]*Palette{
	"interp": Interp,
	"ident": Ident, "signed": Signed, "edge": Edge, "nonfinite": NonFinite, "zerodiv": ZeroDiv,
}
