// Package world replays behaviours of the TLA+ tensor machine (spec/Tensor.tla)
// on the real gorgonia/tensor library and compares what the library does with
// what the specification says.  It uses only the public API to observe a tensor.
package world

import (
	"encoding/json"
	"fmt"
)

type Op struct {
	K string          `json:"k"`
	H int             `json:"h"`
	A json.RawMessage `json:"a"`
}

type Res struct {
	St  string          `json:"st"`
	Ref bool            `json:"ref"`
	H   int             `json:"h"`
	V   json.RawMessage `json:"v"`
	X   json.RawMessage `json:"x"`
}

type Pend struct {
	Shape []int `json:"shape"`
	Cells []int `json:"cells"`
	Perm  []int `json:"perm"`
}

type TRec struct {
	Shape []int  `json:"shape"`
	Cells []int  `json:"cells"`
	View  bool   `json:"view"`
	Ord   string `json:"ord"`
	Al    int    `json:"al"`
	Pend  []Pend `json:"pend"`
	// masks (absent in families that do not use them)
	Masked bool   `json:"masked"`
	Dead   bool   `json:"dead"`
	Kind   string `json:"kind"` // "" = element type of the run; "bool"/"int" for result tensors of a fixed type
}

type Alloc struct {
	Start int               `json:"start"`
	Len   int               `json:"len"`
	Kind  string            `json:"kind"`
	Et    string            `json:"et"`
	Mask  []json.RawMessage `json:"mask"`
	Soft  bool              `json:"soft"`
	MOpen bool              `json:"mopen"`
}

type Post struct {
	Live   []TRec            `json:"live"`
	Heap   []json.RawMessage `json:"heap"`
	Allocs []Alloc           `json:"allocs"`
	MHeap  []int             `json:"mheap"`
}

type Step struct {
	Op   Op    `json:"op"`
	Res  Res   `json:"res"`
	Post *Post `json:"post"`
}

type Case struct {
	Fam   string `json:"fam"`
	Steps []Step `json:"steps"`
	// final state (exhaustive configurations emit only this one)
	Live   []TRec            `json:"live"`
	Heap   []json.RawMessage `json:"heap"`
	Allocs []Alloc           `json:"allocs"`
	MHeap  []int             `json:"mheap"`
	ID     string            `json:"id"`
	// the specification's own integer interpretation of every live tensor (C17), per handle
	IExp [][]int64 `json:"iexp"`
	// Level 2 (spec/AP.tla): the strides the transcribed stride arithmetic computes for every live handle
	L2 []struct {
		Sh  []int `json:"sh"`
		St  []int `json:"st"`
		Dev bool  `json:"dev"`
	} `json:"l2"`
}

func (c *Case) Normalize() {
	if len(c.Steps) > 0 && c.Steps[len(c.Steps)-1].Post == nil && c.Live != nil {
		c.Steps[len(c.Steps)-1].Post = &Post{Live: c.Live, Heap: c.Heap, Allocs: c.Allocs, MHeap: c.MHeap}
	}
}

// Divergence is one observation of the real library that the specification forbids.
type Divergence struct {
	Case   string   `json:"case"`
	Fam    string   `json:"fam"`
	DT     string   `json:"dt"`
	Pal    string   `json:"pal"`
	Cfg    string   `json:"cfg"`
	Step   int      `json:"step"`
	Op     string   `json:"op"`
	Sub    string   `json:"sub"`
	Entry  string   `json:"entry"`
	Engine string   `json:"engine"`
	Kind   string   `json:"kind"`
	Detail string   `json:"detail"`
	Path   string   `json:"path"` // compact rendering of the program
	Tags   []string `json:"tags"` // circumstances named by the specification along the behaviour
}

func (d *Divergence) String() string {
	return fmt.Sprintf("[%s %s/%s] step %d %s: %s: %s | %s", d.Case, d.DT, d.Pal, d.Step, d.Op, d.Kind, d.Detail, d.Path)
}

func decodeArr(raw json.RawMessage) []json.RawMessage {
	var a []json.RawMessage
	if len(raw) == 0 {
		return nil
	}
	if err := json.Unmarshal(raw, &a); err != nil {
		panic(fmt.Sprintf("decodeArr %s: %v", string(raw), err))
	}
	return a
}

func decodeInts(raw json.RawMessage) []int {
	var a []int
	if len(raw) == 0 {
		return nil
	}
	if err := json.Unmarshal(raw, &a); err != nil {
		panic(fmt.Sprintf("decodeInts %s: %v", string(raw), err))
	}
	return a
}

func decodeInt(raw json.RawMessage) int {
	var a int
	if err := json.Unmarshal(raw, &a); err != nil {
		panic(fmt.Sprintf("decodeInt %s: %v", string(raw), err))
	}
	return a
}

func decodeStr(raw json.RawMessage) string {
	var a string
	if err := json.Unmarshal(raw, &a); err != nil {
		panic(fmt.Sprintf("decodeStr %s: %v", string(raw), err))
	}
	return a
}

func decodeIntss(raw json.RawMessage) [][]int {
	var a [][]int
	if len(raw) == 0 {
		return nil
	}
	if err := json.Unmarshal(raw, &a); err != nil {
		panic(fmt.Sprintf("decodeIntss %s: %v", string(raw), err))
	}
	return a
}

// PathString renders the program of a case compactly.
func (c *Case) PathString() string {
	s := ""
	for i, st := range c.Steps {
		if i > 0 {
			s += "; "
		}
		s += fmt.Sprintf("%s(h%d,%s)", st.Op.K, st.Op.H, string(st.Op.A))
	}
	return s
}

func mustJSON(raw json.RawMessage, v interface{}) {
	if err := json.Unmarshal(raw, v); err != nil {
		panic(fmt.Sprintf("mustJSON %s: %v", string(raw), err))
	}
}
