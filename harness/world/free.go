package world

import (
	"reflect"

	"gorgonia.org/tensor"
	"verif/harness/vals"
)

// Free is a free-running world: operations are executed on the real library without a model state
// (trace recording).  Cell numbering follows the specification: every allocation takes the next cells.
type Free struct {
	w *World
}

type ExecOut struct {
	Err    error
	Panic  interface{}
	Ret    int // handle of the returned tensor (0: none); new handles are appended
	IsNew  bool
	Val    interface{}
	HasVal bool
}

func NewFree(cfg Config) *Free {
	c := &Case{ID: "free"}
	w := &World{Cfg: cfg, Ev: &vals.Evaluator{D: cfg.D, Pal: cfg.Pal}, c: c, Stats: NewStats(),
		altFull: map[int][]int{}, altDrop: map[int][]int{}, free: true}
	return &Free{w: w}
}

func (f *Free) Live() []*tensor.Dense { return f.w.live }
func (f *Free) T(h int) *tensor.Dense { return f.w.live[h-1] }
func (f *Free) NCells() int           { return f.w.ncells }
func (f *Free) CallerChanged() string { return f.w.CallerChanged() }

// Kill forgets a handle that was handed back to the library (its struct may be recycled for a new tensor).
func (f *Free) Kill(h int) { f.w.live[h-1] = nil }

// Backs returns the caller-owned backing slices (invalid Value for library allocations).
func (f *Free) Backs() []reflect.Value { return f.w.backs }

// Exec runs one operation record.
func (f *Free) Exec(op Op) ExecOut {
	st := &Step{Op: op, Res: Res{St: "ok"}}
	fn, ok := ops[op.K]
	if !ok {
		panic("no replayer for op " + op.K)
	}
	nb := len(f.w.backs)
	r := safeCall(func() execResult { return fn(f.w, st) })
	out := ExecOut{Err: r.err, Val: r.val, HasVal: r.hasVal}
	if r.panicked {
		out.Panic = r.pval
		return out
	}
	if r.div != nil {
		out.Panic = "harness-detected: " + r.div.Kind + ": " + r.div.Detail
		return out
	}
	if r.err != nil || r.ret == nil {
		// keep allocation numbering aligned: a failed call allocates nothing in the model
		f.w.backs = f.w.backs[:nb]
		return out
	}
	for h, t := range f.w.live {
		if t != nil && t == r.ret {
			out.Ret = h + 1
			return out
		}
	}
	f.w.live = append(f.w.live, r.ret)
	out.Ret = len(f.w.live)
	out.IsNew = true
	if op.K != "New" && op.K != "NewMasked" && op.K != "Slice" && op.K != "ShallowClone" {
		// a library allocation: one cell per element of the result
		if len(f.w.backs) == nb {
			f.w.backs = append(f.w.backs, reflect.Value{})
		}
		f.w.ncells += r.ret.Size()
	}
	return out
}
