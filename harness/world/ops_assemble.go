package world

import (
	"fmt"
	"reflect"

	"gorgonia.org/tensor"
)

func init() {
	Register("Concat", opConcat)
	Register("Stack", opStack)
	Register("Repeat", opRepeat)
}

func decodeAxisHandles(st *Step) (int, []int) {
	a := rawArgs(st)
	return decodeInt(a[0]), decodeInts(a[1])
}

func retDense(r tensor.Tensor) *tensor.Dense {
	if r == nil || reflect.ValueOf(r).IsNil() {
		return nil
	}
	return asDense(r)
}

func opConcat(w *World, st *Step) execResult {
	axis, hs := decodeAxisHandles(st)
	first := w.T(hs[0])
	var r tensor.Tensor
	var err error
	rank := len(first.Shape())
	calcShapeErr := error(nil)
	var calcShape tensor.Shape
	if w.Cfg.Calc {
		var others []tensor.Shape
		for _, h := range hs[1:] {
			others = append(others, w.T(h).Shape().Clone())
		}
		calcShape, calcShapeErr = first.Shape().Clone().Concat(axis, others...)
	}
	switch {
	case w.useMethod() && len(hs) > 1 && rank >= 2 && axis == 0 && w.c.ID != "" && len(w.c.ID)%2 == 0:
		var others []*tensor.Dense
		for _, h := range hs[1:] {
			others = append(others, w.T(h))
		}
		r, err = first.Vstack(others...)
	case w.useMethod() && len(hs) > 1 && ((rank == 1 && axis == 0) || (rank >= 2 && axis == 1)) && len(w.c.ID)%2 == 1:
		var others []*tensor.Dense
		for _, h := range hs[1:] {
			others = append(others, w.T(h))
		}
		r, err = first.Hstack(others...)
	case w.useMethod():
		var others []*tensor.Dense
		for _, h := range hs[1:] {
			others = append(others, w.T(h))
		}
		r, err = first.Concat(axis, others...)
	default:
		var others []tensor.Tensor
		for _, h := range hs[1:] {
			others = append(others, w.T(h))
		}
		r, err = tensor.Concat(axis, first, others...)
	}
	if w.Cfg.Calc && st.Res.St != "free" {
		w.Stats.Compared++
		if (calcShapeErr == nil) != (err == nil) {
			return execResult{div: w.div(0, "calc-disagree", fmt.Sprintf("Shape.Concat error=%v but Concat error=%v", calcShapeErr, err))}
		}
		if err == nil && !eqInts([]int(calcShape), []int(r.Shape())) {
			return execResult{div: w.div(0, "calc-disagree", fmt.Sprintf("Shape.Concat predicts %v but Concat produces %v", []int(calcShape), []int(r.Shape())))}
		}
	}
	if err == nil {
		w.noteLib()
	}
	return execResult{err: err, ret: retDense(r)}
}

func opStack(w *World, st *Step) execResult {
	axis, hs := decodeAxisHandles(st)
	first := w.T(hs[0])
	var r tensor.Tensor
	var err error
	if w.useMethod() {
		var others []*tensor.Dense
		for _, h := range hs[1:] {
			others = append(others, w.T(h))
		}
		r, err = first.Stack(axis, others...)
	} else {
		var others []tensor.Tensor
		for _, h := range hs[1:] {
			others = append(others, w.T(h))
		}
		r, err = tensor.Stack(axis, first, others...)
	}
	if err == nil {
		w.noteLib()
	}
	return execResult{err: err, ret: retDense(r)}
}

func opRepeat(w *World, st *Step) execResult {
	a := rawArgs(st)
	axis := decodeInt(a[0])
	reps := decodeInts(a[1])
	mode := decodeStr(a[2])
	d := decodeInt(a[3])
	t := w.T(st.Op.H)
	given := w.own("Repeat counts", reps)
	var calcShape tensor.Shape
	var calcErr error
	if w.Cfg.Calc {
		calcShape, _, _, calcErr = t.Shape().Clone().Repeat(axis, append([]int{}, reps...)...)
	}
	var r tensor.Tensor
	var err error
	switch {
	case mode == "reuse":
		r, err = tensor.RepeatReuse(t, w.T(d), axis, given...)
	case w.useMethod():
		r, err = t.Repeat(axis, given...)
	default:
		r, err = tensor.Repeat(t, axis, given...)
	}
	if !eqInts(given, reps) {
		return execResult{div: w.div(0, "caller-slice", fmt.Sprintf("the caller's repeats %v were changed to %v", reps, given))}
	}
	if w.Cfg.Calc && st.Res.St != "free" {
		w.Stats.Compared++
		if (calcErr == nil) != (err == nil) {
			return execResult{div: w.div(0, "calc-disagree", fmt.Sprintf("Shape.Repeat error=%v but Repeat error=%v (shape %v axis %d repeats %v)", calcErr, err, []int(t.Shape()), axis, reps))}
		}
		if err == nil && !eqInts([]int(calcShape), []int(r.Shape())) {
			return execResult{div: w.div(0, "calc-disagree", fmt.Sprintf("Shape.Repeat predicts %v but Repeat produces %v", []int(calcShape), []int(r.Shape())))}
		}
	}
	if err == nil && mode == "safe" {
		w.noteLib()
	}
	return execResult{err: err, ret: retDense(r)}
}
