package world

import (
	"fmt"
	"reflect"
	"strings"

	"gorgonia.org/tensor"
	"verif/harness/vals"
)

func init() {
	Register("Arith", opArith)
	Register("Cmp", opCmp)
	Register("Unary", opUnary)
	Register("FMA", opFMA)
}

func opFMA(w *World, st *Step) execResult {
	a := rawArgs(st)
	form, x, y := decodeStr(a[0]), decodeInt(a[1]), decodeInt(a[2])
	var xv interface{}
	if form == "T" {
		xv = w.T(x)
	} else {
		xv = w.Cfg.Pal.Const(w.Cfg.D, x)
	}
	r, err := tensor.FMA(w.T(st.Op.H), xv, w.T(y))
	return execResult{err: err, ret: retDense(r), mayRefuse: true}
}

// OpLists: the concrete operators substituted for the placeholder "OP" of each op kind.
var ArithOps = []string{"add", "sub", "mul", "div", "mod", "pow", "min", "max"}
var CmpOps = []string{"lt", "gt", "lte", "gte", "eq", "ne"}
var UnaryOps = []string{"neg", "inv", "square", "cube", "abs", "sign", "sqrt", "cbrt", "invsqrt", "exp", "log", "log2", "log10", "tanh", "clamp", "apply"}

var cmpFns = map[string]func(interface{}, interface{}, ...tensor.FuncOpt) (tensor.Tensor, error){
	"lt": tensor.Lt, "gt": tensor.Gt, "lte": tensor.Lte, "gte": tensor.Gte, "eq": tensor.ElEq, "ne": tensor.ElNe,
}

var methodNames = map[string]string{
	"add": "Add", "sub": "Sub", "mul": "Mul", "div": "Div", "mod": "Mod", "pow": "Pow", "min": "MinBetween", "max": "MaxBetween",
	"lt": "Lt", "gt": "Gt", "lte": "Lte", "gte": "Gte", "eq": "ElEq", "ne": "ElNe",
}

// Support says whether an element type must / must not be served by an operator (neither: a refusal and a
// value are both accepted; a value is compared when Go defines the operator for the type).
func Support(kind, f string, d *vals.DT) (must, mustNot bool) {
	switch d.Class {
	case vals.CBool:
		if kind == "Cmp" && (f == "eq" || f == "ne") {
			return false, false
		}
		if kind == "Unary" && f == "apply" {
			return true, false
		}
		return false, true
	case vals.CString:
		if kind == "Cmp" || (kind == "Arith" && (f == "min" || f == "max")) {
			return false, false // Go orders strings
		}
		if kind == "Unary" && f == "apply" {
			return true, false
		}
		return false, true
	}
	switch kind {
	case "Arith":
		switch f {
		case "add", "sub", "mul", "div":
			return true, false
		case "pow":
			return d.Class == vals.CFloat || d.Class == vals.CComplex, false
		case "mod", "min", "max":
			return d.Class != vals.CComplex, false
		}
	case "Cmp":
		switch f {
		case "eq", "ne":
			return true, false
		}
		if d.Class == vals.CComplex {
			return false, true // unordered
		}
		return true, false
	case "Unary":
		switch f {
		case "apply":
			return true, false
		case "neg", "square", "cube":
			return true, false
		case "inv":
			return true, false
		case "abs", "sign":
			return d.Class == vals.CInt || d.Class == vals.CFloat, false
		case "clamp":
			return d.Class != vals.CComplex, false
		case "sqrt", "exp", "log", "tanh", "invsqrt", "log2", "log10", "cbrt":
			return d.Class == vals.CFloat, false
		}
	}
	return false, false
}

func (w *World) subst(f string) string {
	if f == "OP" {
		if w.Cfg.Sub == "" {
			panic("no operator substitution configured")
		}
		return w.Cfg.Sub
	}
	return f
}

func (w *World) modeOpts(mode string, d int, same bool) []tensor.FuncOpt {
	var o []tensor.FuncOpt
	switch mode {
	case "unsafe":
		o = append(o, tensor.UseUnsafe())
	case "reuse":
		o = append(o, tensor.WithReuse(w.T(d)))
	case "incr":
		o = append(o, tensor.WithIncr(w.T(d)))
	}
	if same {
		o = append(o, tensor.AsSameType())
	}
	return o
}

func (w *World) useMethod() bool { return w.Cfg.Entry == "method" }

func callMethod(t *tensor.Dense, name string, args ...interface{}) (r *tensor.Dense, err error) {
	m := reflect.ValueOf(t).MethodByName(name)
	if !m.IsValid() {
		return nil, fmt.Errorf("harness: no method %s", name)
	}
	in := make([]reflect.Value, 0, len(args))
	mt := m.Type()
	for i, a := range args {
		if a == nil {
			in = append(in, reflect.Zero(mt.In(i)))
			continue
		}
		in = append(in, reflect.ValueOf(a))
	}
	var out []reflect.Value
	if mt.IsVariadic() {
		// the last argument is the []FuncOpt
		out = m.CallSlice(in)
	} else {
		out = m.Call(in)
	}
	if e, ok := out[len(out)-1].Interface().(error); ok && e != nil {
		err = e
	}
	if len(out) > 1 {
		if d, ok := out[0].Interface().(*tensor.Dense); ok {
			r = d
		} else if tt, ok := out[0].Interface().(tensor.Tensor); ok && tt != nil {
			r = asDense(tt)
		}
	}
	return
}

func binaryCall(w *World, kind, f, form string, h, b int, opts []tensor.FuncOpt) (*tensor.Dense, error) {
	t := w.T(h)
	if name := methodNames[f]; form != "TZ" && form != "ZT" && w.useMethod() && reflect.ValueOf(t).MethodByName(name).IsValid() {
		switch form {
		case "TT":
			return callMethod(t, name, w.T(b), opts)
		case "TS":
			return callMethod(t, name+"Scalar", w.Cfg.Pal.Const(w.Cfg.D, b), true, opts)
		case "ST":
			return callMethod(t, name+"Scalar", w.Cfg.Pal.Const(w.Cfg.D, b), false, opts)
		}
	}
	var fn func(interface{}, interface{}, ...tensor.FuncOpt) (tensor.Tensor, error)
	if kind == "Arith" {
		fn = binaryFns[f]
	} else {
		fn = cmpFns[f]
	}
	var r tensor.Tensor
	var err error
	switch form {
	case "TZ": // the scalar as a rank-0 tensor
		r, err = fn(t, w.T(b), opts...)
	case "ZT":
		r, err = fn(w.T(b), t, opts...)
	case "TT":
		r, err = fn(t, w.T(b), opts...)
	case "TS":
		r, err = fn(t, w.Cfg.Pal.Const(w.Cfg.D, b), opts...)
	case "ST":
		r, err = fn(w.Cfg.Pal.Const(w.Cfg.D, b), t, opts...)
	}
	return asDense(r), err
}

func (w *World) finishElem(kind, f string, r *tensor.Dense, err error, fresh bool) execResult {
	must, mustNot := Support(kind, f, w.Cfg.D)
	if err == nil && mustNot {
		return execResult{div: w.div(0, "accepted-unsupported-type", fmt.Sprintf("%s %s on %s returned a result instead of an error", kind, f, w.Cfg.D.Name))}
	}
	if err == nil && fresh {
		w.noteLib()
	}
	return execResult{err: err, ret: r, mayRefuse: !must}
}

func opArith(w *World, st *Step) execResult {
	a := rawArgs(st)
	f, form, b, mode, d := w.subst(decodeStr(a[0])), decodeStr(a[1]), decodeInt(a[2]), decodeStr(a[3]), decodeInt(a[4])
	if (f == "div" || f == "mod") && w.Cfg.D.IsInt() && w.intZeroDivisor(form, st.Op.H, b) {
		// Go's integer division by zero has no value: the statement leaves these inputs open
		return execResult{openEnd: true}
	}
	if f == "pow" && w.Cfg.D.Class == vals.CComplex && w.Cfg.Pal.Name == "nonfinite" {
		// Go's cmplx.Pow itself panics ("not reached") on some non-finite arguments: no oracle
		return execResult{openEnd: true}
	}
	r, err := binaryCall(w, "Arith", f, form, st.Op.H, b, w.modeOpts(mode, d, false))
	return w.finishElem("Arith", f, r, err, mode == "safe")
}

func opCmp(w *World, st *Step) execResult {
	a := rawArgs(st)
	f, form, b, mode, d, same := w.subst(decodeStr(a[0])), decodeStr(a[1]), decodeInt(a[2]), decodeStr(a[3]), decodeInt(a[4]), decodeInt(a[5]) == 1
	if same && !w.Cfg.D.Numeric() && w.Cfg.D.Class != vals.CBool {
		return execResult{openEnd: true} // 1/0 "of the operand element type" has no meaning for strings
	}
	r, err := binaryCall(w, "Cmp", f, form, st.Op.H, b, w.modeOpts(mode, d, same))
	return w.finishElem("Cmp", f, r, err, mode == "safe")
}

// ApplyFn is the harness function handed to Apply: a distinct effect per element type.
func ApplyFn(d *vals.DT) interface{} {
	switch d.Name {
	case "bool":
		return func(x bool) bool { return !x }
	case "int":
		return func(x int) int { return x*3 + 1 }
	case "int8":
		return func(x int8) int8 { return x*3 + 1 }
	case "int16":
		return func(x int16) int16 { return x*3 + 1 }
	case "int32":
		return func(x int32) int32 { return x*3 + 1 }
	case "int64":
		return func(x int64) int64 { return x*3 + 1 }
	case "uint":
		return func(x uint) uint { return x*3 + 1 }
	case "uint8":
		return func(x uint8) uint8 { return x*3 + 1 }
	case "uint16":
		return func(x uint16) uint16 { return x*3 + 1 }
	case "uint32":
		return func(x uint32) uint32 { return x*3 + 1 }
	case "uint64":
		return func(x uint64) uint64 { return x*3 + 1 }
	case "float32":
		return func(x float32) float32 { return x*3 + 1 }
	case "float64":
		return func(x float64) float64 { return x*3 + 1 }
	case "complex64":
		return func(x complex64) complex64 { return x*3 + 1 }
	case "complex128":
		return func(x complex128) complex128 { return x*3 + 1 }
	case "string":
		return func(x string) string { return x + "!" }
	}
	panic("ApplyFn " + d.Name)
}

func opUnary(w *World, st *Step) execResult {
	a := rawArgs(st)
	f, mode, d, lo, hi := w.subst(decodeStr(a[0])), decodeStr(a[1]), decodeInt(a[2]), decodeInt(a[3]), decodeInt(a[4])
	t := w.T(st.Op.H)
	opts := w.modeOpts(mode, d, false)
	var r tensor.Tensor
	var err error
	if f == "inv" && w.Cfg.D.IsInt() {
		if els, e := ElemsOf(t); e == nil {
			for _, x := range els {
				if v, ok := vals.ToInt64(x); ok && v == 0 {
					return execResult{openEnd: true} // Go's integer 1/0 has no value
				}
			}
		}
	}
	switch f {
	case "clamp":
		r, err = tensor.Clamp(t, w.Cfg.Pal.Const(w.Cfg.D, lo), w.Cfg.Pal.Const(w.Cfg.D, hi), opts...)
	case "apply":
		r, err = t.Apply(ApplyFn(w.Cfg.D), opts...)
	default:
		r, err = unaryFns[f](t, opts...)
	}
	res := w.finishElem("Unary", f, asDense(r), err, mode == "safe")
	if mode == "incr" && !w.Cfg.D.Numeric() {
		res.mayRefuse = true // adding into a non-numeric tensor has no meaning
	}
	return res
}

// ElemKind returns the elementwise kind of a case ("" if it has none).
func ElemKind(c *Case) string {
	for i := range c.Steps {
		switch k := c.Steps[i].Op.K; k {
		case "Arith", "Cmp", "Unary", "Reduce", "Arg":
			if strings.Contains(string(c.Steps[i].Op.A), `"OP"`) {
				return k
			}
		}
	}
	return ""
}

func (w *World) intZeroDivisor(form string, h, b int) bool {
	isZero := func(v interface{}) bool { x, ok := vals.ToInt64(v); return ok && x == 0 }
	switch form {
	case "TS":
		return isZero(w.Cfg.Pal.Const(w.Cfg.D, b))
	case "ST", "ZT":
		els, err := ElemsOf(w.T(h))
		if err != nil {
			return false
		}
		for _, e := range els {
			if isZero(e) {
				return true
			}
		}
	case "TT", "TZ":
		els, err := ElemsOf(w.T(b))
		if err != nil {
			return false
		}
		for _, e := range els {
			if isZero(e) {
				return true
			}
		}
	}
	return false
}
