package world

import (
	"bytes"
	"fmt"
	"strings"

	"gorgonia.org/tensor"
)

func init() { Register("RoundTrip", opRoundTrip) }

// RoundTrip: encode with the format, decode the bytes into a fresh tensor.
// An encoder error is a refusal; bytes that cannot be read back are a divergence.
func opRoundTrip(w *World, st *Step) execResult {
	f := decodeStr(rawArgs(st)[0])
	t := w.T(st.Op.H)
	out := new(tensor.Dense)
	var encErr, decErr error
	// the bytes an encoder hands out belong to the caller: encoding ANOTHER tensor before they are decoded must not
	// change them (an encoder that recycles its buffer would)
	other := func() {
		o := tensor.New(tensor.WithShape(2, 3), tensor.Of(w.Cfg.D.T))
		var buf bytes.Buffer
		switch f {
		case "gob":
			o.GobEncode()
		case "npy":
			o.WriteNpy(&buf)
		case "csv":
			o.WriteCSV(&buf)
		case "pb":
			o.PBEncode()
		case "fb":
			o.FBEncode()
		}
	}
	switch f {
	case "gob":
		var b []byte
		if b, encErr = t.GobEncode(); encErr == nil {
			other()
			decErr = out.GobDecode(b)
		}
	case "npy":
		var buf bytes.Buffer
		if encErr = t.WriteNpy(&buf); encErr == nil {
			other()
			decErr = out.ReadNpy(&buf)
		}
	case "csv":
		var buf bytes.Buffer
		if encErr = t.WriteCSV(&buf); encErr == nil {
			decErr = out.ReadCSV(&buf, tensor.As(w.Cfg.D.T))
		}
	case "pb":
		var b []byte
		if b, encErr = t.PBEncode(); encErr == nil {
			other()
			decErr = out.PBDecode(b)
		}
	case "fb":
		var b []byte
		if b, encErr = t.FBEncode(); encErr == nil {
			other()
			decErr = out.FBDecode(b)
		}
	default:
		panic("format " + f)
	}
	if encErr != nil {
		return execResult{err: encErr, mayRefuse: true}
	}
	if decErr != nil && f == "csv" && strings.Contains(decErr.Error(), "not yet implemented") {
		// the csv reader has no parser for this element type: the format does not support it
		return execResult{err: decErr, mayRefuse: true}
	}
	if decErr != nil {
		return execResult{div: w.div(0, "cannot-read-back", fmt.Sprintf("%s: encoding succeeded but decoding failed: %v", f, decErr))}
	}
	if out.Dtype() != w.Cfg.D.T {
		return execResult{div: w.div(0, "dtype", fmt.Sprintf("%s: decoded element type %v, expected %v", f, out.Dtype(), w.Cfg.D.T))}
	}
	w.noteLib()
	return execResult{ret: out}
}
