package world

import (
	"fmt"
	"reflect"

	"gorgonia.org/tensor"
	"verif/harness/vals"
)

func init() {
	Register("Iter", opIter)
	Register("MultIter", opMultIter)
}

type iterOut struct {
	C     string `json:"c"`
	Idx   int    `json:"idx"`
	Err   int    `json:"err"`
	Skip  int    `json:"skip"`
	Coord []int  `json:"coord"`
	Done  int    `json:"done"`
	Valid int    `json:"valid"`
}

const iterNA = -9

// dataAt returns Data()[i] of a (non-scalar) tensor, or the scalar value for i == 0.
func dataAt(t *tensor.Dense, i int) (v interface{}, ok bool) {
	if t.IsScalar() {
		if i != 0 {
			return nil, false
		}
		return t.ScalarValue(), true
	}
	d := reflect.ValueOf(t.Data())
	if i < 0 || i >= d.Len() {
		return nil, false
	}
	return d.Index(i).Interface(), true
}

// runIter drives a real iterator with the script and compares every return with the specification.
func (w *World) runIter(t *tensor.Dense, it tensor.Iterator, script []string, exp []iterOut, cells []int, tr *TRec, masked bool) *Divergence {
	post := w.finalPost()
	kindB := post.Allocs[tr.Al-1].Kind == "b"
	checkIdx := func(n int, cmd string, got int, e iterOut) *Divergence {
		if e.Idx == -1 {
			return nil // exhaustion: the returned index is not specified
		}
		if kindB && got != e.Idx {
			return w.div(0, "iter-offset", fmt.Sprintf("command %d (%s) yielded offset %d, expected %d (script %v)", n, cmd, got, e.Idx, script))
		}
		// behavioural: the offset must denote the expected element in the tensor's own storage window
		k := -1
		for j, c := range cells {
			if c-cells[0] == e.Idx {
				k = j
			}
		}
		if k >= 0 {
			v, ok := dataAt(t, got)
			expv := w.Ev.Eval(w.heapTerm(post, cells[k]))
			if !ok || !w.same(expv, v) {
				return w.div(0, "iter-offset", fmt.Sprintf("command %d (%s) yielded offset %d where Data() holds %v, expected the element %v (script %v)", n, cmd, got, v, expv.V, script))
			}
		}
		return nil
	}
	for n, cmd := range script {
		e := exp[n]
		w.Stats.Compared++
		switch cmd {
		case "Next", "Start":
			var i int
			var err error
			if cmd == "Next" {
				i, err = it.Next()
			} else {
				i, err = it.Start()
			}
			if (err != nil) != (e.Err == 1) {
				return w.div(0, "iter-exhaustion", fmt.Sprintf("command %d (%s) returned (%d, %v), expected err=%v (script %v)", n, cmd, i, err, e.Err == 1, script))
			}
			if err == nil {
				if d := checkIdx(n, cmd, i, e); d != nil {
					return d
				}
			}
		case "NextValidity":
			i, valid, err := it.NextValidity()
			if (err != nil) != (e.Err == 1) {
				return w.div(0, "iter-exhaustion", fmt.Sprintf("command %d (%s) returned (%d,%v,%v), expected err=%v", n, cmd, i, valid, err, e.Err == 1))
			}
			if err == nil {
				if d := checkIdx(n, cmd, i, e); d != nil {
					return d
				}
				if valid != (e.Valid == 1) {
					return w.div(0, "iter-validity", fmt.Sprintf("command %d (%s) reported valid=%v, expected %v (script %v)", n, cmd, valid, e.Valid == 1, script))
				}
			}
		case "NextValid", "NextInvalid":
			var i, skip int
			var err error
			if cmd == "NextValid" {
				i, skip, err = it.NextValid()
			} else {
				i, skip, err = it.NextInvalid()
			}
			if (err != nil) != (e.Err == 1) {
				return w.div(0, "iter-exhaustion", fmt.Sprintf("command %d (%s) returned (%d,%d,%v), expected err=%v (script %v)", n, cmd, i, skip, err, e.Err == 1, script))
			}
			if err == nil {
				if d := checkIdx(n, cmd, i, e); d != nil {
					return d
				}
			}
			if (err == nil || masked) && skip != e.Skip {
				return w.div(0, "iter-skip", fmt.Sprintf("command %d (%s) reported skip %d, expected %d (script %v)", n, cmd, skip, e.Skip, script))
			}
		case "Reset":
			it.Reset()
		case "Rev":
			it.SetReverse()
		case "Fwd":
			it.SetForward()
		case "Coord":
			c := it.Coord()
			if len(e.Coord) > 0 || (len(tr.Shape) == 0) {
				if len(e.Coord) > 0 && !eqInts(c, e.Coord) {
					return w.div(0, "iter-coord", fmt.Sprintf("command %d: Coord() = %v, expected %v (script %v)", n, c, e.Coord, script))
				}
			}
		case "Done":
			if it.Done() != (e.Done == 1) {
				return w.div(0, "iter-done", fmt.Sprintf("command %d: Done() = %v, expected %v (script %v)", n, it.Done(), e.Done == 1, script))
			}
		}
	}
	return nil
}

func opIter(w *World, st *Step) execResult {
	var script []string
	mustJSON(st.Op.A, &script)
	var x struct {
		Out   []iterOut `json:"out"`
		Cells []int     `json:"cells"`
	}
	mustJSON(st.Res.X, &x)
	t := w.T(st.Op.H)
	tr := w.finalPost().Live[st.Op.H-1]
	it := tensor.FlatIteratorFromDense(t)
	if d := w.runIter(t, it, script, x.Out, x.Cells, &tr, false); d != nil {
		return execResult{div: d}
	}
	return execResult{}
}

// MultIter: a multi-iterator over equally shaped tensors yields for each tensor the offset its own flat iterator yields.
func opMultIter(w *World, st *Step) execResult {
	hs := decodeInts(st.Op.A)
	var x struct {
		Offs [][]int `json:"offs"`
	}
	mustJSON(st.Res.X, &x)
	var ts []tensor.DenseTensor
	for _, h := range hs {
		ts = append(ts, w.T(h))
	}
	it := tensor.MultIteratorFromDense(ts...)
	post := w.finalPost()
	for k := range x.Offs {
		_, err := it.Next()
		w.Stats.Compared++
		if err != nil {
			return execResult{div: w.div(0, "iter-exhaustion", fmt.Sprintf("multi-iterator ended at position %d of %d: %v", k, len(x.Offs), err))}
		}
		for j, h := range hs {
			got := it.LastIndex(j)
			tr := post.Live[h-1]
			if post.Allocs[tr.Al-1].Kind == "b" && got != x.Offs[k][j] {
				return execResult{div: w.div(0, "iter-offset", fmt.Sprintf("multi-iterator position %d tensor %d: offset %d, expected %d", k, j, got, x.Offs[k][j]))}
			}
			v, ok := dataAt(w.T(h), got)
			expv := w.Ev.Eval(w.heapTerm(post, tr.Cells[k]))
			if !ok || !w.same(expv, v) {
				return execResult{div: w.div(0, "iter-offset", fmt.Sprintf("multi-iterator position %d tensor %d: offset %d holds %v, expected %v", k, j, got, v, expv.V))}
			}
		}
	}
	if _, err := it.Next(); err == nil {
		return execResult{div: w.div(0, "iter-exhaustion", "multi-iterator did not report exhaustion")}
	}
	return execResult{}
}

var _ = vals.Eq
