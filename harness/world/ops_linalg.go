package world

import (
	"fmt"
	"reflect"

	"gorgonia.org/tensor"
)

func init() {
	Register("Product", opProduct)
	Register("Trace", opTrace)
}

func opProduct(w *World, st *Step) execResult {
	a := rawArgs(st)
	kind := decodeStr(a[0])
	b := decodeInt(a[1])
	axA, axB := decodeInts(a[2]), decodeInts(a[3])
	mode := decodeStr(a[4])
	d := decodeInt(a[5])
	ta, tb := w.T(st.Op.H), w.T(b)
	opts := w.modeOpts(mode, d, false)
	var r tensor.Tensor
	var err error
	var val interface{}
	hasVal := false
	cA, cB := w.own("TensorMul axesA", axA), w.own("TensorMul axesB", axB)
	switch kind {
	case "MatMul":
		if w.useMethod() {
			r, err = ta.MatMul(tb, opts...)
		} else {
			r, err = tensor.MatMul(ta, tb, opts...)
		}
	case "MatVecMul":
		if w.useMethod() {
			r, err = ta.MatVecMul(tb, opts...)
		} else {
			r, err = tensor.MatVecMul(ta, tb, opts...)
		}
	case "Outer":
		if w.useMethod() {
			r, err = ta.Outer(tb, opts...)
		} else {
			r, err = tensor.Outer(ta, tb, opts...)
		}
	case "Inner":
		if w.useMethod() {
			val, err = ta.Inner(tb)
		} else {
			val, err = tensor.Inner(ta, tb)
		}
		hasVal = err == nil
	case "TensorMul":
		if mode != "safe" {
			return execResult{openEnd: true}
		}
		if w.useMethod() {
			r, err = ta.TensorMul(tb, cA, cB)
		} else {
			r, err = tensor.Contract(ta, tb, cA, cB)
		}
		if !eqInts(cA, axA) || !eqInts(cB, axB) {
			return execResult{div: w.div(0, "caller-slice", fmt.Sprintf("the caller's axes %v / %v were changed to %v / %v", axA, axB, cA, cB))}
		}
	case "Dot":
		r, err = tensor.Dot(ta, tb, opts...)
	}
	if err == nil && mode == "safe" && kind != "Inner" {
		w.noteLib()
	}
	var ret *tensor.Dense
	if r != nil && !reflect.ValueOf(r).IsNil() {
		ret = asDense(r)
	}
	return execResult{err: err, ret: ret, val: val, hasVal: hasVal, mayRefuse: true}
}

func opTrace(w *World, st *Step) execResult {
	v, err := w.T(st.Op.H).Trace()
	return execResult{err: err, val: v, hasVal: err == nil, mayRefuse: true}
}
