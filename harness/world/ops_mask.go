package world

import (
	"fmt"
	"verif/harness/vals"

	"gorgonia.org/tensor"
)

func init() {
	Register("NewMasked", opNewMasked)
	Register("NewMaskedF", opNewMasked)
	Register("MaskPred", opMaskPred)
	Register("Soften", opSoften)
	Register("ResetMask", opResetMask)
	Register("Filled", opFilled)
	Register("MaskInspect", opMaskInspect)
	Register("MIter", opMIter)
}

func opNewMasked(w *World, st *Step) execResult {
	a := rawArgs(st)
	shape := decodeInts(a[0])
	bits := decodeInts(a[1])
	n := prod(shape)
	start := w.nextStart()
	b := w.MakeBackingOf(w.cellDT(start), start, n)
	mask := make([]bool, n)
	for i, x := range bits {
		mask[i] = x == 1
	}
	opts := []tensor.ConsOpt{tensor.WithShape(shape...), tensor.WithBacking(b.Interface(), mask)}
	if st.Op.K == "NewMaskedF" {
		opts = append(opts, tensor.AsFortran(nil))
	}
	opts = append(opts, w.engineOpt()...)
	w.backs = append(w.backs, b)
	if w.free {
		w.ncells += n
	}
	return execResult{ret: tensor.New(opts...)}
}

func opMaskPred(w *World, st *Step) execResult {
	a := rawArgs(st)
	pred := decodeStr(a[0])
	x := w.Cfg.Pal.Const(w.Cfg.D, decodeInt(a[1]))
	y := w.Cfg.Pal.Const(w.Cfg.D, decodeInt(a[2]))
	t := w.T(st.Op.H)
	var err error
	switch pred {
	case "eq":
		err = t.MaskedEqual(x)
	case "ne":
		err = t.MaskedNotEqual(x)
	case "gt":
		err = t.MaskedGreater(x)
	case "ge":
		err = t.MaskedGreaterEqual(x)
	case "lt":
		err = t.MaskedLess(x)
	case "le":
		err = t.MaskedLessEqual(x)
	case "inside":
		err = t.MaskedInside(x, y)
	case "outside":
		err = t.MaskedOutside(x, y)
	}
	return execResult{err: err, mayRefuse: !w.Cfg.D.Ordered()}
}

func opSoften(w *World, st *Step) execResult {
	if decodeInts(st.Op.A)[0] == 1 {
		w.T(st.Op.H).SoftenMask()
	} else {
		w.T(st.Op.H).HardenMask()
	}
	return execResult{}
}

func opResetMask(w *World, st *Step) execResult {
	return execResult{err: w.T(st.Op.H).ResetMask()}
}

func opFilled(w *World, st *Step) execResult {
	j := decodeInts(st.Op.A)[0]
	t := w.T(st.Op.H)
	var r interface{}
	var err error
	if j == 0 {
		r, err = t.Filled()
	} else {
		r, err = t.Filled(w.Cfg.Pal.Const(w.Cfg.D, j))
	}
	if err == nil {
		w.noteLib()
	}
	d, _ := r.(*tensor.Dense)
	// the point of Filled: every masked position of the result holds the fill value (the general comparison leaves the
	// values under a result's mask open, so this is checked here)
	if err == nil && d != nil && t.IsMasked() {
		var fill interface{} = vals.FillValue(w.Cfg.D)
		if j != 0 {
			fill = w.Cfg.Pal.Const(w.Cfg.D, j)
		}
		shape := []int(t.Shape())
		for k := 0; k < prod(shape); k++ {
			c := coordOf(k, shape)
			m, merr := t.MaskAt(c...)
			if merr != nil || !m {
				continue
			}
			got, gerr := d.At(c...)
			w.Stats.Compared++
			if gerr != nil || !vals.Eq(got, fill) {
				return execResult{div: w.div(0, "filled", fmt.Sprintf("Filled: masked element %v of the result is %v (%v), expected the fill value %v (shape %v)", c, got, gerr, fill, shape))}
			}
		}
	}
	return execResult{err: err, ret: d}
}

func slicesToPairs(sl []tensor.Slice) [][]int {
	out := [][]int{}
	for _, s := range sl {
		out = append(out, []int{s.Start(), s.End()})
	}
	return out
}

func eqPairs(a, b [][]int) bool {
	if len(a) != len(b) {
		return false
	}
	for i := range a {
		if !eqInts(a[i], b[i]) {
			return false
		}
	}
	return true
}

func opMaskInspect(w *World, st *Step) execResult {
	t := w.T(st.Op.H)
	var x struct {
		Masked  int     `json:"masked"`
		Count   int     `json:"count"`
		Size    int     `json:"size"`
		AxCount [][]int `json:"axcount"`
		AxLen   []int   `json:"axlen"`
		MRuns   [][]int `json:"mruns"`
		URuns   [][]int `json:"uruns"`
		MEdges  []int   `json:"medges"`
		UEdges  []int   `json:"uedges"`
	}
	mustJSON(st.Res.X, &x)
	fail := func(what string, got, exp interface{}) execResult {
		return execResult{div: w.div(0, "mask-inspect", fmt.Sprintf("%s = %v, expected %v (shape %v)", what, got, exp, []int(t.Shape())))}
	}
	w.Stats.Compared += 8
	if got := t.MaskedCount(); got != x.Count {
		return fail("MaskedCount()", got, x.Count)
	}
	if got := t.NonMaskedCount(); got != x.Size-x.Count {
		return fail("NonMaskedCount()", got, x.Size-x.Count)
	}
	if got := t.MaskedAny(); got != (x.Count > 0) {
		return fail("MaskedAny()", got, x.Count > 0)
	}
	if got := t.MaskedAll(); got != (x.Count == x.Size) {
		return fail("MaskedAll()", got, x.Count == x.Size)
	}
	if got := slicesToPairs(t.FlatMaskedContiguous()); !eqPairs(got, x.MRuns) {
		return fail("FlatMaskedContiguous()", got, x.MRuns)
	}
	if got := slicesToPairs(t.FlatNotMaskedContiguous()); !eqPairs(got, x.URuns) {
		return fail("FlatNotMaskedContiguous()", got, x.URuns)
	}
	if got := slicesToPairs(t.ClumpMasked()); !eqPairs(got, x.MRuns) {
		return fail("ClumpMasked()", got, x.MRuns)
	}
	if got := slicesToPairs(t.ClumpUnmasked()); !eqPairs(got, x.URuns) {
		return fail("ClumpUnmasked()", got, x.URuns)
	}
	if s, e := t.FlatMaskedEdges(); s != x.MEdges[0] || e != x.MEdges[1] {
		return fail("FlatMaskedEdges()", []int{s, e}, x.MEdges)
	}
	if s, e := t.FlatNotMaskedEdges(); s != x.UEdges[0] || e != x.UEdges[1] {
		return fail("FlatNotMaskedEdges()", []int{s, e}, x.UEdges)
	}
	// per-axis variants (documented to fall back to the flat result for vectors)
	isVec := len(x.AxLen) == 2 && (x.AxLen[0] == 1 || x.AxLen[1] == 1)
	if len(x.AxLen) >= 2 && !isVec {
		for ax := range x.AxLen {
			exp := x.AxCount[ax]
			check := func(name string, got interface{}, f func(c int) interface{}) *execResult {
				d, ok := got.(*tensor.Dense)
				if !ok {
					r := fail(fmt.Sprintf("%s(%d)", name, ax), got, "a tensor")
					return &r
				}
				els, err := ElemsOf(d)
				if err != nil || len(els) != len(exp) {
					r := fail(fmt.Sprintf("%s(%d)", name, ax), els, exp)
					return &r
				}
				for k := range els {
					w.Stats.Compared++
					if els[k] != f(exp[k]) {
						r := fail(fmt.Sprintf("%s(%d)[%d]", name, ax, k), els[k], f(exp[k]))
						return &r
					}
				}
				return nil
			}
			n := x.AxLen[ax]
			if r := check("MaskedCount", t.MaskedCount(ax), func(c int) interface{} { return c }); r != nil {
				return *r
			}
			if r := check("NonMaskedCount", t.NonMaskedCount(ax), func(c int) interface{} { return n - c }); r != nil {
				return *r
			}
			if r := check("MaskedAny", t.MaskedAny(ax), func(c int) interface{} { return c > 0 }); r != nil {
				return *r
			}
			if r := check("MaskedAll", t.MaskedAll(ax), func(c int) interface{} { return c == n }); r != nil {
				return *r
			}
		}
	}
	return execResult{}
}

func opMIter(w *World, st *Step) execResult {
	var script []string
	mustJSON(st.Op.A, &script)
	var x struct {
		Out   []iterOut `json:"out"`
		Cells []int     `json:"cells"`
	}
	mustJSON(st.Res.X, &x)
	t := w.T(st.Op.H)
	tr := w.finalPost().Live[st.Op.H-1]
	it := tensor.IteratorFromDense(t)
	if d := w.runIter(t, it, script, x.Out, x.Cells, &tr, true); d != nil {
		return execResult{div: d}
	}
	return execResult{}
}
