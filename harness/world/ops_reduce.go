package world

import (
	"fmt"
	"reflect"

	"gorgonia.org/tensor"
	"verif/harness/vals"
)

func init() {
	Register("Reduce", opReduce)
	Register("Arg", opArg)
}

var ReduceOps = []string{"sum", "max", "min", "reduce"}
var ArgOps = []string{"argmax", "argmin"}

func addFn(d *vals.DT) interface{} {
	switch d.Name {
	case "int":
		return func(a, b int) int { return a + b }
	case "int8":
		return func(a, b int8) int8 { return a + b }
	case "int16":
		return func(a, b int16) int16 { return a + b }
	case "int32":
		return func(a, b int32) int32 { return a + b }
	case "int64":
		return func(a, b int64) int64 { return a + b }
	case "uint":
		return func(a, b uint) uint { return a + b }
	case "uint8":
		return func(a, b uint8) uint8 { return a + b }
	case "uint16":
		return func(a, b uint16) uint16 { return a + b }
	case "uint32":
		return func(a, b uint32) uint32 { return a + b }
	case "uint64":
		return func(a, b uint64) uint64 { return a + b }
	case "float32":
		return func(a, b float32) float32 { return a + b }
	case "float64":
		return func(a, b float64) float64 { return a + b }
	case "complex64":
		return func(a, b complex64) complex64 { return a + b }
	case "complex128":
		return func(a, b complex128) complex128 { return a + b }
	}
	return nil
}

func reduceSupport(f string, d *vals.DT) (must bool) {
	switch f {
	case "sum", "reduce":
		return d.Numeric()
	}
	return d.Ordered()
}

func opReduce(w *World, st *Step) execResult {
	a := rawArgs(st)
	f := w.subst(decodeStr(a[0]))
	if f == "add" {
		f = "sum"
	}
	axes := decodeInts(a[1])
	t := w.T(st.Op.H)
	along := w.own("reduction axes", axes)
	var r tensor.Tensor
	var err error
	switch f {
	case "sum":
		if w.useMethod() {
			r, err = t.Sum(along...)
		} else {
			r, err = tensor.Sum(t, along...)
		}
	case "max":
		r, err = t.Max(along...)
	case "min":
		r, err = t.Min(along...)
	case "reduce":
		fn := addFn(w.Cfg.D)
		if len(axes) != 1 || fn == nil {
			return execResult{openEnd: true} // the generic Reduce takes exactly one axis
		}
		r, err = t.Reduce(fn, along[0], w.Cfg.D.Zero())
	}
	if !eqInts(along, axes) {
		return execResult{div: w.div(0, "caller-slice", fmt.Sprintf("the caller's axes slice %v was changed to %v", axes, along))}
	}
	if err == nil {
		w.noteLib()
	}
	var ret *tensor.Dense
	if r != nil && !reflect.ValueOf(r).IsNil() {
		ret = asDense(r)
	}
	return execResult{err: err, ret: ret, mayRefuse: true || !reduceSupport(f, w.Cfg.D)}
}

func opArg(w *World, st *Step) execResult {
	a := rawArgs(st)
	f := w.subst(decodeStr(a[0]))
	if f == "max" || f == "min" {
		f = "arg" + f
	}
	axis := decodeInt(a[1])
	t := w.T(st.Op.H)
	var r tensor.Tensor
	var err error
	switch f {
	case "argmax":
		if w.useMethod() {
			r, err = t.Argmax(axis)
		} else {
			r, err = tensor.Argmax(t, axis)
		}
	case "argmin":
		if w.useMethod() {
			r, err = t.Argmin(axis)
		} else {
			r, err = tensor.Argmin(t, axis)
		}
	}
	if err == nil {
		w.noteLib()
	}
	var ret *tensor.Dense
	if r != nil && !reflect.ValueOf(r).IsNil() {
		ret = asDense(r)
	}
	return execResult{err: err, ret: ret, mayRefuse: true}
}
