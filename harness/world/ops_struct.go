package world

import (
	"fmt"
	"hash/fnv"
	"reflect"

	"gorgonia.org/tensor"
	"verif/harness/vals"
)

func init() {
	Register("New", opNew)
	Register("At", opAt)
	Register("AtBox", opAtBox)
	Register("SetAt", opSetAt)
	Register("Slice", opSlice)
	Register("T", opT)
	Register("UT", opUT)
	Register("Transpose", opTranspose)
	Register("SafeT", opSafeT)
	Register("RollAxis", opRollAxis)
	Register("Materialize", opMaterialize)
	Register("Clone", opClone)
	Register("ShallowClone", opShallowClone)
	Register("ShallowReturn", opShallowReturn)
	Register("Copy", opCopy)
	Register("Memset", opMemset)
	Register("Zero", opZero)
	Register("UnsafeUn", opUnsafeUn)
	Register("UnsafeBinK", opUnsafeBinK)
	Register("Reshape", opReshape)
}

func (w *World) engineOpt() []tensor.ConsOpt {
	switch w.Cfg.Engine {
	case "f32":
		return []tensor.ConsOpt{tensor.WithEngine(tensor.Float32Engine{})}
	case "f64":
		return []tensor.ConsOpt{tensor.WithEngine(tensor.Float64Engine{})}
	}
	return nil
}

// MakeBacking returns a caller-owned []T whose position i holds the palette value of cell start+i.
func (w *World) MakeBacking(start, n int) reflect.Value {
	b := w.Cfg.D.MakeSlice(n)
	for i := 0; i < n; i++ {
		b.Index(i).Set(reflect.ValueOf(w.Cfg.Pal.Cell(w.Cfg.D, start+i)))
	}
	return b
}

func (w *World) MakeBackingOf(d *vals.DT, start, n int) reflect.Value {
	b := d.MakeSlice(n)
	for i := 0; i < n; i++ {
		b.Index(i).Set(reflect.ValueOf(w.Cfg.Pal.Cell(d, start+i)))
	}
	return b
}

func (w *World) nextStart() int {
	if w.free {
		return w.ncells + 1
	}
	// cells are numbered in allocation order; the model's allocation table of the final state tells where
	// the allocation made by this step starts
	p := w.finalPost()
	ai := len(w.backs)
	if ai >= len(p.Allocs) {
		panic(fmt.Sprintf("case %s: allocation %d not in the model", w.c.ID, ai+1))
	}
	return p.Allocs[ai].Start
}

func (w *World) finalPost() *Post {
	for i := len(w.c.Steps) - 1; i >= 0; i-- {
		if w.c.Steps[i].Post != nil {
			return w.c.Steps[i].Post
		}
	}
	panic("case without post state")
}

func opNew(w *World, st *Step) execResult {
	a := rawArgs(st)
	shape := decodeInts(a[0])
	ctor := decodeStr(a[1])
	n := prod(shape)
	start := w.nextStart()
	b := w.MakeBackingOf(w.cellDT(start), start, n)
	opts := []tensor.ConsOpt{tensor.WithShape(shape...)}
	switch ctor {
	case "C":
		opts = append(opts, tensor.WithBacking(b.Interface()))
		w.backs = append(w.backs, b)
	case "F":
		opts = append(opts, tensor.WithBacking(b.Interface()), tensor.AsFortran(nil))
		w.backs = append(w.backs, b)
	case "Cpre": // the backing before the shape
		opts = []tensor.ConsOpt{tensor.WithBacking(b.Interface()), tensor.WithShape(shape...)}
		w.backs = append(w.backs, b)
	case "Fpre": // the column-major declaration before the shape and the backing
		opts = []tensor.ConsOpt{tensor.AsFortran(nil), tensor.WithShape(shape...), tensor.WithBacking(b.Interface())}
		w.backs = append(w.backs, b)
	case "Fconv":
		opts = append(opts, tensor.AsFortran(b.Interface()))
		w.backs = append(w.backs, reflect.Value{})
	default:
		panic("ctor " + ctor)
	}
	opts = append(opts, w.engineOpt()...)
	t := tensor.New(opts...)
	if w.free {
		w.ncells += n
	}
	return execResult{ret: t}
}

// noteLib records that a library allocation happened (keeps allocation numbering aligned with the model).
func (w *World) noteLib() { w.backs = append(w.backs, reflect.Value{}) }

func opAt(w *World, st *Step) execResult {
	c := w.own("At coordinates", decodeInts(st.Op.A))
	v, err := w.T(st.Op.H).At(c...)
	return execResult{err: err, val: v, hasVal: err == nil}
}

func opSetAt(w *World, st *Step) execResult {
	a := rawArgs(st)
	c := w.own("SetAt coordinates", decodeInts(a[0]))
	j := decodeInt(a[1])
	err := w.T(st.Op.H).SetAt(w.Cfg.Pal.Const(w.Cfg.D, j), c...)
	return execResult{err: err}
}

// snapshot of everything observable: every caller backing and every live tensor's elements
type snapshot struct {
	backs [][]interface{}
	elems [][]interface{}
}

func (w *World) snap() snapshot {
	var s snapshot
	for _, b := range w.backs {
		if !b.IsValid() {
			s.backs = append(s.backs, nil)
			continue
		}
		x := make([]interface{}, b.Len())
		for i := range x {
			x[i] = b.Index(i).Interface()
		}
		s.backs = append(s.backs, x)
	}
	for _, t := range w.live {
		if t == nil {
			s.elems = append(s.elems, nil)
			continue
		}
		e, err := ElemsOf(t)
		if err != nil {
			e = nil
		}
		s.elems = append(s.elems, e)
	}
	return s
}

// diff lists the differences between two snapshots as (kind, index, position)
type sdiff struct {
	back bool
	idx  int
	pos  int
}

func snapDiff(a, b snapshot) []sdiff {
	var out []sdiff
	for i := range a.backs {
		for j := range a.backs[i] {
			if !vals.Eq(a.backs[i][j], b.backs[i][j]) {
				out = append(out, sdiff{true, i, j})
			}
		}
	}
	for i := range a.elems {
		if len(a.elems[i]) != len(b.elems[i]) {
			out = append(out, sdiff{false, i, -1})
			continue
		}
		for j := range a.elems[i] {
			if !vals.Eq(a.elems[i][j], b.elems[i][j]) {
				out = append(out, sdiff{false, i, j})
			}
		}
	}
	return out
}

// AtBox: the complete table coordinate -> cell over the box [-2, dim+1] per axis.
// In-range: At returns the value of exactly that cell; SetAt changes exactly that cell and nothing else.
// Out-of-range: both are rejected with an error and nothing is read or written.
func opAtBox(w *World, st *Step) execResult {
	t := w.T(st.Op.H)
	var x struct {
		Table []int   `json:"table"`
		Arity [][]int `json:"arity"`
	}
	mustJSON(st.Res.X, &x)
	post := w.finalPost()
	tr := post.Live[st.Op.H-1]
	shape := tr.Shape
	box := make([]int, len(shape))
	for i, d := range shape {
		box[i] = d + 4
	}
	// probe value: distinct from every cell value and constant of the palettes
	probe := w.probeValue()
	n := prod(box)
	h := st.Op.H - 1
	for k := 0; k < n; k++ {
		c := coordOf(k, box)
		for i := range c {
			c[i] -= 2
		}
		cell := x.Table[k]
		before := w.snap()
		res := safeCall(func() execResult {
			v, err := t.At(c...)
			return execResult{err: err, val: v}
		})
		w.Stats.Calls++
		w.Stats.Compared++
		if res.panicked {
			return execResult{div: w.div(0, "panic", fmt.Sprintf("At(%v) on shape %v panics: %v", c, shape, res.pval))}
		}
		if cell == 0 {
			if res.err == nil {
				return execResult{div: w.div(0, "accepted-invalid", fmt.Sprintf("At(%v) on shape %v returned %v instead of an error", c, shape, res.val))}
			}
		} else {
			if res.err != nil {
				return execResult{div: w.div(0, "unexpected-error", fmt.Sprintf("At(%v) on shape %v: %v", c, shape, res.err))}
			}
			exp := w.Ev.Eval(w.heapTerm(post, cell))
			if !w.same(exp, res.val) {
				return execResult{div: w.div(0, "value", fmt.Sprintf("At(%v) on shape %v returned %v, expected %v (cell %d)", c, shape, res.val, exp.V, cell))}
			}
		}
		// write
		res = safeCall(func() execResult { return execResult{err: t.SetAt(probe, c...)} })
		w.Stats.Calls++
		w.Stats.Compared++
		if res.panicked {
			return execResult{div: w.div(0, "panic", fmt.Sprintf("SetAt(%v) on shape %v panics: %v", c, shape, res.pval))}
		}
		after := w.snap()
		diffs := snapDiff(before, after)
		if cell == 0 {
			if res.err == nil {
				return execResult{div: w.div(0, "accepted-invalid", fmt.Sprintf("SetAt(%v) on shape %v returned no error (changed %d observable positions)", c, shape, len(diffs)))}
			}
			if len(diffs) > 0 {
				return execResult{div: w.div(0, "rejected-but-wrote", fmt.Sprintf("SetAt(%v) on shape %v was rejected but changed %v", c, shape, diffs))}
			}
			continue
		}
		if res.err != nil {
			return execResult{div: w.div(0, "unexpected-error", fmt.Sprintf("SetAt(%v) on shape %v: %v", c, shape, res.err))}
		}
		// exactly that one element changed: in the tensor, in its backing, and in every tensor sharing the cell
		for _, d := range diffs {
			if d.back {
				a := post.Allocs[d.idx]
				if a.Start+d.pos != cell {
					return execResult{div: w.div(0, "wrote-elsewhere", fmt.Sprintf("SetAt(%v) on shape %v changed backing %d position %d (cell %d), expected only cell %d", c, shape, d.idx+1, d.pos, a.Start+d.pos, cell))}
				}
			} else {
				if d.pos < 0 || post.Live[d.idx].Cells[d.pos] != cell {
					return execResult{div: w.div(0, "wrote-elsewhere", fmt.Sprintf("SetAt(%v) on shape %v changed element %d of h%d, which is not cell %d", c, shape, d.pos, d.idx+1, cell))}
				}
			}
		}
		// and it did change where it must
		k2 := -1
		for j, cc := range tr.Cells {
			if cc == cell {
				k2 = j
			}
		}
		if !vals.Eq(after.elems[h][k2], probe) {
			return execResult{div: w.div(0, "write-lost", fmt.Sprintf("SetAt(%v) on shape %v: element reads %v afterwards, wrote %v", c, shape, after.elems[h][k2], probe))}
		}
		a := post.Allocs[tr.Al-1]
		if a.Kind == "b" && !vals.Eq(after.backs[tr.Al-1][cell-a.Start], probe) {
			return execResult{div: w.div(0, "write-lost", fmt.Sprintf("SetAt(%v) on shape %v did not reach backing position %d", c, shape, cell-a.Start))}
		}
		// restore
		if err := t.SetAt(before.elems[h][k2], c...); err != nil {
			panic(err)
		}
	}
	// wrong arity
	for _, c := range x.Arity {
		before := w.snap()
		res := safeCall(func() execResult {
			_, err := t.At(c...)
			return execResult{err: err}
		})
		w.Stats.Calls++
		if res.panicked {
			return execResult{div: w.div(0, "panic", fmt.Sprintf("At(%v) (wrong arity) on shape %v panics: %v", c, shape, res.pval))}
		}
		if res.err == nil {
			return execResult{div: w.div(0, "accepted-invalid", fmt.Sprintf("At(%v) (wrong arity) on shape %v returned no error", c, shape))}
		}
		res = safeCall(func() execResult { return execResult{err: t.SetAt(probe, c...)} })
		w.Stats.Calls++
		if res.panicked {
			return execResult{div: w.div(0, "panic", fmt.Sprintf("SetAt(%v) (wrong arity) on shape %v panics: %v", c, shape, res.pval))}
		}
		if res.err == nil {
			return execResult{div: w.div(0, "accepted-invalid", fmt.Sprintf("SetAt(%v) (wrong arity) on shape %v returned no error", c, shape))}
		}
		if d := snapDiff(before, w.snap()); len(d) > 0 {
			return execResult{div: w.div(0, "rejected-but-wrote", fmt.Sprintf("SetAt(%v) (wrong arity) changed %v", c, d))}
		}
	}
	return execResult{}
}

func (w *World) probeValue() interface{} {
	d := w.Cfg.D
	switch d.Class {
	case vals.CBool:
		return true
	case vals.CString:
		return "probe"
	}
	return d.FromInt(99)
}

func mkSlices(args [][]int) []tensor.Slice {
	out := make([]tensor.Slice, len(args))
	for i, a := range args {
		switch a[0] {
		case 0:
			out[i] = nil
		case 1:
			out[i] = tensor.S(a[1])
		case 2:
			out[i] = tensor.S(a[1], a[2], a[3])
		}
	}
	return out
}

// sliceVia takes the slice through one of the entry points of the API (chosen by the content of the call, so that
// every run makes the same choice): Slice, SliceInto (a caller-provided *Dense receives the view), or - for a single
// unit-step range - Narrow.
func (w *World) sliceVia(src *tensor.Dense, sl [][]int, st *Step) (tensor.View, error) {
	h := fnv.New32a()
	h.Write(st.Op.A)
	h.Write([]byte(w.Cfg.D.Name))
	switch (int(h.Sum32()&0xffff) + st.Op.H) % 4 {
	case 1:
		into := tensor.New(tensor.Of(src.Dtype()), tensor.WithShape(1))
		return src.SliceInto(into, mkSlices(sl)...)
	case 2:
		// Narrow(dim, start, length) == the range [start, start+length) on one axis, every other axis whole
		dim, n := -1, 0
		for i, a := range sl {
			if a[0] != 0 {
				dim, n = i, n+1
			}
		}
		if n == 1 && sl[dim][0] == 2 && sl[dim][3] == 1 && sl[dim][2] > sl[dim][1] && dim == len(sl)-1 {
			return src.Narrow(dim, sl[dim][1], sl[dim][2]-sl[dim][1])
		}
	}
	return src.Slice(mkSlices(sl)...)
}

func opSlice(w *World, st *Step) execResult {
	sl := decodeIntss(st.Op.A)
	src := w.T(st.Op.H)
	var calcShape tensor.Shape
	var calcErr error
	if w.Cfg.Calc {
		calcShape, calcErr = src.Shape().Clone().S(mkSlices(sl)...)
	}
	v, err := w.sliceVia(src, sl, st)
	if w.Cfg.Calc && st.Res.St != "free" {
		w.Stats.Compared++
		switch {
		case (calcErr == nil) != (err == nil):
			return execResult{div: w.div(0, "calc-disagree", fmt.Sprintf("Shape.S error=%v but Slice error=%v on shape %v", calcErr, err, []int(src.Shape())))}
		case err == nil && !eqInts([]int(calcShape), []int(v.Shape())) && !(calcShape.IsScalar() && v.Shape().IsScalar()):
			return execResult{div: w.div(0, "calc-disagree", fmt.Sprintf("Shape.S predicts %v but Slice of shape %v produces %v%s", []int(calcShape), []int(src.Shape()), []int(v.Shape()), calcTag(sl, []int(src.Shape()), []int(calcShape), []int(v.Shape()))))}
		}
	}
	if err != nil {
		return execResult{err: err}
	}
	if len(st.Res.X) > 0 && string(st.Res.X) != "[]" {
		var x struct {
			Full  []int `json:"full"`
			Drop  []int `json:"drop"`
			Shape []int `json:"shape"`
		}
		mustJSON(st.Res.X, &x)
		w.altFull[len(w.live)] = x.Full
		w.altDrop[len(w.live)] = x.Drop
		got := []int(v.Shape())
		if !eqInts(got, x.Shape) && shapeAllowed(got, x.Full, x.Drop) {
			// an alternative the statement allows: elements are compared once, then the behaviour ends
			d := v.(*tensor.Dense)
			els, err := ElemsOf(d)
			if err != nil {
				return execResult{div: w.div(0, "unreadable", err.Error())}
			}
			return execResult{ret: d, altShape: true, altElems: els}
		}
		if !eqInts(got, x.Shape) {
			return execResult{div: w.div(0, "shape", fmt.Sprintf("slice of shape %v has shape %v, expected %v%s",
				[]int(w.T(st.Op.H).Shape()), got, x.Shape, sliceShapeTag(got, []int(w.T(st.Op.H).Shape()), sl)))}
		}
	}
	return execResult{ret: v.(*tensor.Dense)}
}

func opT(w *World, st *Step) execResult {
	p := w.own("T axes", decodeInts(st.Op.A))
	return execResult{err: w.T(st.Op.H).T(p...)}
}

func opUT(w *World, st *Step) execResult {
	w.T(st.Op.H).UT()
	return execResult{}
}

func opTranspose(w *World, st *Step) execResult {
	return execResult{err: w.T(st.Op.H).Transpose()}
}

func opSafeT(w *World, st *Step) execResult {
	p := w.own("SafeT axes", decodeInts(st.Op.A))
	r, err := w.T(st.Op.H).SafeT(p...)
	if err == nil {
		w.noteLib()
	}
	return execResult{err: err, ret: r}
}

func opRollAxis(w *World, st *Step) execResult {
	a := decodeInts(st.Op.A)
	r, err := w.T(st.Op.H).RollAxis(a[0], a[1], a[2] == 1)
	if err == nil && st.Res.H > len(w.live) {
		w.noteLib()
	}
	return execResult{err: err, ret: r}
}

func opMaterialize(w *World, st *Step) execResult {
	r := w.T(st.Op.H).Materialize()
	if st.Res.H > len(w.live) {
		w.noteLib()
	}
	return execResult{ret: r.(*tensor.Dense)}
}

func opClone(w *World, st *Step) execResult {
	r := w.T(st.Op.H).Clone().(*tensor.Dense)
	w.noteLib()
	return execResult{ret: r}
}

func opShallowClone(w *World, st *Step) execResult {
	r := w.T(st.Op.H).ShallowClone() // no allocation: the storage is the operand's
	return execResult{ret: r}
}

// a shallow clone handed straight back to the pools, followed by other pool users that borrow, scribble and return
func opShallowReturn(w *World, st *Step) execResult {
	tensor.ReturnTensor(w.T(st.Op.H).ShallowClone())
	var held [][]int
	for sz := 0; sz <= 4; sz++ {
		for k := 0; k < 3; k++ {
			s := tensor.BorrowInts(sz)
			for i := range s {
				s[i] = 7777
			}
			held = append(held, s)
		}
	}
	for _, s := range held {
		tensor.ReturnInts(s)
	}
	return execResult{}
}

func opCopy(w *World, st *Step) execResult {
	a := decodeInts(st.Op.A)
	return execResult{err: tensor.Copy(w.T(st.Op.H), w.T(a[0]))}
}

func opMemset(w *World, st *Step) execResult {
	a := decodeInts(st.Op.A)
	return execResult{err: w.T(st.Op.H).Memset(w.Cfg.Pal.Const(w.Cfg.D, a[0]))}
}

func opZero(w *World, st *Step) execResult {
	w.T(st.Op.H).Zero()
	return execResult{}
}

var unaryFns = map[string]func(tensor.Tensor, ...tensor.FuncOpt) (tensor.Tensor, error){
	"neg": tensor.Neg, "inv": tensor.Inv, "square": tensor.Square, "cube": tensor.Cube, "exp": tensor.Exp,
	"tanh": tensor.Tanh, "log": tensor.Log, "log2": tensor.Log2, "log10": tensor.Log10, "sqrt": tensor.Sqrt,
	"cbrt": tensor.Cbrt, "invsqrt": tensor.InvSqrt, "abs": tensor.Abs, "sign": tensor.Sign,
}

var binaryFns = map[string]func(interface{}, interface{}, ...tensor.FuncOpt) (tensor.Tensor, error){
	"add": tensor.Add, "sub": tensor.Sub, "mul": tensor.Mul, "div": tensor.Div, "pow": tensor.Pow, "mod": tensor.Mod,
	"min": tensor.MinBetween, "max": tensor.MaxBetween,
}

func asDense(t tensor.Tensor) *tensor.Dense {
	if t == nil {
		return nil
	}
	d, _ := t.(*tensor.Dense)
	return d
}

func opUnsafeUn(w *World, st *Step) execResult {
	a := rawArgs(st)
	f := unaryFns[decodeStr(a[0])]
	r, err := f(w.T(st.Op.H), tensor.UseUnsafe())
	return execResult{err: err, ret: asDense(r)}
}

func opUnsafeBinK(w *World, st *Step) execResult {
	a := rawArgs(st)
	f := binaryFns[decodeStr(a[0])]
	r, err := f(w.T(st.Op.H), w.Cfg.Pal.Const(w.Cfg.D, decodeInt(a[1])), tensor.UseUnsafe())
	return execResult{err: err, ret: asDense(r)}
}

func opReshape(w *World, st *Step) execResult {
	s := w.own("Reshape dims", decodeInts(st.Op.A))
	return execResult{err: w.T(st.Op.H).Reshape(s...)}
}

// sliceShapeTag names the recognised way in which a slice's shape is wrong (used to tell a
// listed finding from any other wrong shape).
func sliceShapeTag(got, src []int, sl [][]int) string {
	if len(sl) == 0 || len(src) == 0 {
		return ""
	}
	// the shape one gets when the LEADING axis length is rounded down instead of up
	full := make([]int, len(src))
	for i, d := range src {
		full[i] = d
		if i < len(sl) {
			a := sl[i]
			switch a[0] {
			case 1:
				full[i] = 1
			case 2:
				e := a[2]
				if e > d {
					e = d
				}
				st := a[3]
				if st <= 0 {
					st = 1
				}
				if i == 0 {
					full[i] = (e - a[1]) / st
					if full[i] <= 0 {
						full[i] = 1
					}
				} else {
					full[i] = (e - a[1] + st - 1) / st
				}
			}
		}
	}
	var ones []int
	for i, d := range full {
		if d == 1 {
			ones = append(ones, i+1)
		}
	}
	if a := sl[0]; a[0] == 2 && a[3] > 1 && shapeAllowed(got, full, ones) {
		return " [lead-axis-floor]"
	}
	return ""
}

// calcTag names the recognised disagreements between Shape.S and Slice.
func calcTag(sl [][]int, src, calc, got []int) string {
	if prod(calc) == 1 && prod(got) == 1 {
		return " [one-element: scalar vs length-one axes]"
	}
	for i, a := range sl {
		if i > 0 && a[0] == 2 && a[3] > 1 {
			e := a[2]
			if e > src[i] {
				e = src[i]
			}
			if (e-a[1])%a[3] != 0 {
				return " [calculator rounds a stepped non-leading axis down]"
			}
		}
	}
	return ""
}

func isNoOp(err error) bool {
	_, ok := err.(tensor.NoOpError)
	return ok
}

// TCalc: Dense.T with an arbitrary axis list next to the shape-only calculator AP.T.
func opTCalc(w *World, st *Step) execResult {
	p := decodeInts(st.Op.A)
	t := w.T(st.Op.H)
	before := []int(t.Shape().Clone())
	ap, _, calcErr := t.Info().T(append([]int{}, p...)...)
	if isNoOp(calcErr) {
		calcErr = nil
	}
	err := t.T(append([]int{}, p...)...)
	w.Stats.Compared++
	if (calcErr == nil) != (err == nil) {
		return execResult{div: w.div(0, "calc-disagree", fmt.Sprintf("AP.T error=%v but Dense.T error=%v for axes %v on shape %v", calcErr, err, p, before))}
	}
	if err == nil && !eqInts([]int(ap.Shape()), []int(t.Shape())) {
		return execResult{div: w.div(0, "calc-disagree", fmt.Sprintf("AP.T predicts %v but Dense.T(%v) of shape %v produces %v", []int(ap.Shape()), p, before, []int(t.Shape())))}
	}
	return execResult{err: err}
}

func init() { Register("TCalc", opTCalc) }
