package world

import (
	"fmt"
	"math"
	"reflect"

	"gonum.org/v1/gonum/mat"
	"gorgonia.org/tensor"
	"verif/harness/vals"
)

func init() {
	Register("SetSweep", opSetSweep)
	Register("UnsafeBinT", opUnsafeBinT)
	Register("CopyTo", opCopyTo)
	Register("Export", opExport)
}

func opSetSweep(w *World, st *Step) execResult {
	t := w.T(st.Op.H)
	shape := []int(t.Shape())
	n := prod(shape)
	for k := 0; k < n; k++ {
		if err := t.SetAt(w.Cfg.Pal.Const(w.Cfg.D, k+1), coordOf(k, shape)...); err != nil {
			return execResult{err: err}
		}
	}
	return execResult{}
}

func opUnsafeBinT(w *World, st *Step) execResult {
	a := rawArgs(st)
	f := binaryFns[decodeStr(a[0])]
	r, err := f(w.T(st.Op.H), w.T(decodeInt(a[1])), tensor.UseUnsafe())
	return execResult{err: err, ret: asDense(r)}
}

func opCopyTo(w *World, st *Step) execResult {
	a := decodeInts(st.Op.A)
	return execResult{err: w.T(st.Op.H).CopyTo(w.T(a[0]))}
}

func flatten(v reflect.Value, out *[]interface{}) {
	if v.Kind() == reflect.Slice {
		for i := 0; i < v.Len(); i++ {
			flatten(v.Index(i), out)
		}
		return
	}
	*out = append(*out, v.Interface())
}

// Export: conversions to native Go slices and gonum matrices preserve the same elements.
// kinds: "native" (native.Vector*/Matrix*/Tensor3*), "mat64" (ToMat64 and back through FromMat64)
func opExport(w *World, st *Step) execResult {
	a := rawArgs(st)
	kind := decodeStr(a[0])
	t := w.T(st.Op.H)
	var x struct {
		Cells []int `json:"cells"`
		Shape []int `json:"shape"`
	}
	mustJSON(st.Res.X, &x)
	post := w.finalPost()
	expect := func(k int) vals.Val { return w.Ev.Eval(w.heapTerm(post, x.Cells[k])) }
	switch kind {
	case "native":
		r := len(x.Shape)
		if r < 1 || r > 3 {
			return execResult{err: fmt.Errorf("harness: no native conversion for rank %d", r)}
		}
		v, err := nativeFns[w.Cfg.D.Name][r-1](t)
		if err != nil {
			return execResult{err: err}
		}
		var flat []interface{}
		flatten(reflect.ValueOf(v), &flat)
		if len(flat) != len(x.Cells) {
			return execResult{div: w.div(0, "export", fmt.Sprintf("native conversion has %d elements, expected %d", len(flat), len(x.Cells)))}
		}
		for k := range flat {
			w.Stats.Compared++
			if e := expect(k); !w.same(e, flat[k]) {
				return execResult{div: w.div(0, "export", fmt.Sprintf("native conversion element %d is %v, expected %v; all %v", k, flat[k], e.V, flat))}
			}
		}
		return execResult{}
	case "mat64":
		if len(x.Shape) != 2 || !w.Cfg.D.Numeric() || w.Cfg.D.Class == vals.CComplex {
			return execResult{err: fmt.Errorf("harness: ToMat64 needs a real matrix")}
		}
		m, err := tensor.ToMat64(t)
		if err != nil {
			return execResult{err: err}
		}
		rr, cc := m.Dims()
		if rr != x.Shape[0] || cc != x.Shape[1] {
			return execResult{div: w.div(0, "export", fmt.Sprintf("ToMat64 dims (%d,%d), expected %v", rr, cc, x.Shape))}
		}
		for k := range x.Cells {
			e := expect(k)
			// the element as a float64 (exact for every real element type incl. NaN, the infinities and signed zeros)
			var ev float64
			switch x := e.V.(type) {
			case float64:
				ev = x
			case float32:
				ev = float64(x)
			default:
				iv, _ := vals.ToInt64(e.V)
				ev = float64(iv)
				if u, ok := e.V.(uint64); ok {
					ev = float64(u)
				}
				if u, ok := e.V.(uint); ok {
					ev = float64(u)
				}
			}
			w.Stats.Compared++
			if got := m.At(k/cc, k%cc); !(got == ev && math.Signbit(got) == math.Signbit(ev)) && !(got != got && ev != ev) {
				return execResult{div: w.div(0, "export", fmt.Sprintf("ToMat64 element (%d,%d) is %v, expected %v", k/cc, k%cc, got, ev))}
			}
		}
		// ToMat64 must not alias the tensor unless asked to: write into the matrix, tensor unchanged
		before := w.snap()
		orig00 := m.At(0, 0)
		m.Set(0, 0, 77)
		if d := snapDiff(before, w.snap()); len(d) > 0 {
			return execResult{div: w.div(0, "export-aliases", fmt.Sprintf("writing into the ToMat64 copy changed the tensor: %v", d))}
		}
		// and back
		m2 := mat.DenseCopyOf(m)
		m2.Set(0, 0, orig00)
		back := tensor.FromMat64(m2, tensor.As(w.Cfg.D.T))
		if !eqInts([]int(back.Shape()), x.Shape) {
			return execResult{div: w.div(0, "export", fmt.Sprintf("FromMat64 shape %v, expected %v", back.Shape(), x.Shape))}
		}
		els, err := ElemsOf(back)
		if err != nil {
			return execResult{div: w.div(0, "export", err.Error())}
		}
		for k := range els {
			w.Stats.Compared++
			if e := expect(k); !w.same(e, els[k]) {
				return execResult{div: w.div(0, "export", fmt.Sprintf("FromMat64(ToMat64(t)) element %d is %v, expected %v", k, els[k], e.V))}
			}
		}
		return execResult{}
	}
	panic("export kind " + kind)
}
