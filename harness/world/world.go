package world

import (
	"encoding/json"
	"fmt"
	"os"
	"reflect"
	"runtime"
	"runtime/debug"
	"strings"

	"gorgonia.org/tensor"
	"verif/harness/vals"
)

// Config of one replay of a case.
type Config struct {
	D      *vals.DT
	Pal    *vals.Palette
	Engine string // "", "f32", "f64"
	Entry  string // "" (default per op), "func", "method"
	Name   string // configuration label (build tags etc.)
	Calc   bool   // also ask the shape-only calculators and compare them with the operations (C13)
	Sub    string // the concrete operator substituted for the placeholder "OP"
}

type World struct {
	Cfg   Config
	Ev    *vals.Evaluator
	backs []reflect.Value // per allocation: the caller-owned backing slice (kind "b"), else invalid
	live  []*tensor.Dense
	// per handle: alternative shapes allowed by the statement (axes that may be dropped)
	altFull map[int][]int
	altDrop map[int][]int
	c       *Case
	Stats   *Stats
	tags    []string
	curF    string        // the concrete operator of the step being executed (for the divergence label)
	caller  []callerSlice // int slices handed to the library by the "caller" (this harness)
	free    bool          // free-running mode (trace recording): no model state is available
	ncells  int           // free mode: cells allocated so far
}

type Stats struct {
	Cases      int            `json:"cases"`
	Execs      int            `json:"execs"`    // (case, dtype, palette) executions
	Calls      int            `json:"calls"`    // library calls made
	Compared   int            `json:"compared"` // element/observation comparisons
	Refused    int            `json:"refused"`  // executions ended by an accepted refusal
	Open       int            `json:"open"`     // executions ended at an outcome the statement leaves open
	OpenPos    int            `json:"open_pos"` // positions not compared (open by the statement)
	Diverged   int            `json:"diverged"`
	ByOp       map[string]int `json:"by_op"`
	RefusedOps map[string]int `json:"refused_ops"`
	Nontrivial int            `json:"nontrivial"`
	L2Agree    int            `json:"l2_agree"`  // live tensors whose Strides() equal the Level-2 transcription's
	L2Differ   int            `json:"l2_differ"` // ... and differ (not a verdict: strides are not observable behaviour)
	SubCmp     map[string]int `json:"sub_cmp"`  // per substituted operator / dtype class: computed (non-trivial) values compared
	SubOpen    map[string]int `json:"sub_open"` // ... and left open by the evaluator (no oracle): a key with only open values is never checked
	TagN       map[string]int `json:"tag_n"`     // executions in which the circumstance named by the tag occurred
	TagDiv     map[string]int `json:"tag_div"`   // ... of which diverged
	TagPass    map[string]int `json:"tag_pass"`  // ... of which were compared to the end and agreed
}

func NewStats() *Stats {
	return &Stats{ByOp: map[string]int{}, RefusedOps: map[string]int{}, SubCmp: map[string]int{}, SubOpen: map[string]int{}, TagN: map[string]int{}, TagDiv: map[string]int{}, TagPass: map[string]int{}}
}

var churn = make([]string, 512)

type execResult struct {
	err       error
	panicked  bool
	pval      interface{}
	stack     string
	ret       *tensor.Dense
	retSet    bool
	val       interface{}
	hasVal    bool
	div       *Divergence // a divergence detected inside a compound op
	altShape  bool        // the result has a shape other than the model's, but one the statement allows
	altElems  []interface{}
	mayRefuse bool // an error is an accepted refusal (element type outside the operation's domain)
	openEnd   bool // the inputs are left open by the statement: nothing is executed or compared
}

type opFunc func(w *World, st *Step) execResult

var ops = map[string]opFunc{}

func Register(k string, f opFunc) { ops[k] = f }

func (w *World) div(step int, kind, detail string) *Divergence {
	op := ""
	if step >= 0 && step < len(w.c.Steps) {
		op = w.c.Steps[step].Op.K
	}
	if w.Cfg.Sub != "" {
		op += ":" + w.Cfg.Sub
	} else if w.curF != "" {
		op += ":" + w.curF
	}
	return &Divergence{Case: w.c.ID, Fam: w.c.Fam, DT: w.Cfg.D.Name, Pal: w.Cfg.Pal.Name, Cfg: w.Cfg.Name,
		Step: step, Op: op, Kind: kind, Detail: detail, Path: w.c.PathString(), Tags: append([]string{}, w.tags...)}
}

func safeCall(f func() execResult) (r execResult) {
	defer func() {
		if p := recover(); p != nil {
			r = execResult{panicked: true, pval: p, stack: string(debug.Stack())}
		}
	}()
	return f()
}

type callerSlice struct {
	what string
	orig []int
	cur  []int
}

// own returns a caller-owned copy of xs that the harness keeps watching: the library must never mutate,
// retain-and-recycle or otherwise change it (C19).
func (w *World) own(what string, xs []int) []int {
	cur := append(make([]int, 0, len(xs)), xs...)
	w.caller = append(w.caller, callerSlice{what: what, orig: append([]int{}, xs...), cur: cur})
	return cur
}

// CallerChanged reports the first caller-owned slice that no longer holds what the caller put there.
func (w *World) CallerChanged() string {
	for _, c := range w.caller {
		if !eqInts(c.orig, c.cur[:len(c.orig)]) || len(c.cur) != len(c.orig) {
			return fmt.Sprintf("%s: the caller's slice %v now reads %v", c.what, c.orig, c.cur)
		}
	}
	return ""
}

// Outcome of running one case under one configuration.
type Outcome int

const (
	Passed Outcome = iota
	Refused
	OpenEnd
	Diverged
)

// Run replays the case; returns the first divergence (nil if none).
func Run(c *Case, cfg Config, stats *Stats) (dv *Divergence, out Outcome) {
	// the calls into the library are made under recover (safeCall); a panic that escapes nevertheless happened while the
	// library's tensors were being observed (shape, strides, masks, iterators): it is reported, it does not end the run
	defer func() {
		if p := recover(); p != nil {
			stats.Diverged++
			dv = &Divergence{Case: c.ID, Fam: c.Fam, DT: cfg.D.Name, Pal: cfg.Pal.Name, Cfg: cfg.Name, Step: len(c.Steps) - 1,
				Op: "observe", Kind: "panic", Detail: fmt.Sprintf("panic while observing the tensors: %v", p), Path: c.PathString()}
			out = Diverged
		}
	}()
	return runCounted(c, cfg, stats)
}

func runCounted(c *Case, cfg Config, stats *Stats) (*Divergence, Outcome) {
	w, d, oc := run(c, cfg, stats)
	if oc == Passed && c.L2 != nil {
		for h, l := range c.L2 {
			if l.Dev || h >= len(w.live) || w.live[h] == nil {
				continue
			}
			got := w.live[h].Strides()
			same := len(got) == len(l.St)
			for i := 0; same && i < len(got); i++ {
				same = got[i] == l.St[i]
			}
			if same {
				stats.L2Agree++
			} else {
				stats.L2Differ++
				if os.Getenv("VERIF_L2_VERBOSE") != "" {
					fmt.Fprintf(os.Stderr, "L2 strides differ: %s h%d real %v level-2 %v\n", c.PathString(), h+1, got, l.St)
				}
			}
		}
	}
	for _, t := range w.tags {
		stats.TagN[t]++
		switch oc {
		case Diverged:
			stats.TagDiv[t]++
		case Passed:
			stats.TagPass[t]++
		}
	}
	return d, oc
}

func run(c *Case, cfg Config, stats *Stats) (*World, *Divergence, Outcome) {
	w := &World{Cfg: cfg, Ev: &vals.Evaluator{D: cfg.D, Pal: cfg.Pal, Sub: cfg.Sub}, c: c, Stats: stats,
		altFull: map[int][]int{}, altDrop: map[int][]int{}}
	w.Ev.CellDT = w.cellDT
	if c.IExp != nil {
		// C17: only element types that represent every operand value and every exact result take part
		for h, xs := range c.IExp {
			for _, v := range xs {
				if v >= interpUndef {
					continue
				}
				et := w.cellDT(c.Live[h].Cells[0])
				if et.Class == vals.CBool && (v == 0 || v == 1) {
					continue
				}
				if !et.Represents(v) {
					stats.Open++
					return w, nil, OpenEnd
				}
			}
		}
	}
	stats.Execs++
	for i := range c.Steps {
		st := &c.Steps[i]
		f, ok := ops[st.Op.K]
		if !ok {
			panic("no replayer for op " + st.Op.K)
		}
		last := i == len(c.Steps)-1
		w.noteTags(st)
		w.noteOrderTags(st)
		r := safeCall(func() execResult { return f(w, st) })
		stats.Calls++
		stats.ByOp[st.Op.K]++
		if r.openEnd {
			stats.Open++
			return w, nil, OpenEnd
		}
		if r.div != nil {
			r.div.Step = i
			r.div.Op = st.Op.K
			stats.Diverged++
			return w, r.div, Diverged
		}
		if r.altShape && st.Res.St == "ok" {
			// compare the elements of the alternative-shaped result by row-major sequence, then stop
			// (only when this is the last step: the final heap is the heap right after this step)
			if d := w.compareAlt(i, st, r); last && d != nil {
				stats.Diverged++
				return w, d, Diverged
			}
			stats.Open++
			return w, nil, OpenEnd
		}
		if r.panicked {
			if st.Res.St == "free" {
				stats.Open++
				return w, nil, OpenEnd
			}
			stats.Diverged++
			lines := strings.Split(r.stack, "\n")
			where := ""
			for j, l := range lines {
				if strings.Contains(l, "gorgonia.org/tensor") && j+1 < len(lines) && !strings.Contains(l, "harness") {
					where = strings.TrimSpace(l)
					break
				}
			}
			return w, w.div(i, "panic", fmt.Sprintf("%v at %s", r.pval, where)), Diverged
		}
		switch st.Res.St {
		case "free":
			stats.Open++
			return w, nil, OpenEnd
		case "err":
			if r.err == nil {
				stats.Diverged++
				return w, w.div(i, "accepted-invalid", "the call must be rejected with an error but returned none"), Diverged
			}
			// state must be unchanged: checked below against the post state (identical to the pre state)
		case "ok":
			if r.err != nil {
				if st.Res.Ref || r.mayRefuse {
					stats.Refused++
					stats.RefusedOps[st.Op.K]++
					if lf := os.Getenv("VERIF_REFUSELOG"); lf != "" { // analysis aid: the reasons of accepted refusals
						if f, e := os.OpenFile(fmt.Sprintf("%s.%d", lf, os.Getpid()), os.O_CREATE|os.O_APPEND|os.O_WRONLY, 0644); e == nil {
							fmt.Fprintf(f, "REFUSED\t%s\t%s\t%v\n", w.Cfg.D.Name, c.PathString(), r.err)
							f.Close()
						}
					}
					return w, nil, Refused
				}
				stats.Diverged++
				return w, w.div(i, "unexpected-error", r.err.Error()), Diverged
			}
			if d := w.checkReturn(i, st, r); d != nil {
				stats.Diverged++
				return w, d, Diverged
			}
		}
		if msg := w.CallerChanged(); msg != "" {
			stats.Diverged++
			return w, w.div(i, "caller-slice", msg), Diverged
		}
		if last && w.Cfg.D.Class == vals.CString {
			// element types with pointers: a collection followed by fresh allocations of the same size class must
			// not change what the tensors hold (storage the collector cannot see is freed and reused)
			runtime.GC()
			for j := range churn {
				churn[j] = fmt.Sprintf("g%d", j+i)
			}
		}
		if st.Post != nil {
			d, open := w.compare(i, st.Post)
			if d != nil {
				stats.Diverged++
				return w, d, Diverged
			}
			if open {
				stats.Open++
				return w, nil, OpenEnd
			}
			if last && c.IExp != nil {
				if d := w.compareInterp(i); d != nil {
					stats.Diverged++
					return w, d, Diverged
				}
			}
		}
		_ = last
	}
	return w, nil, Passed
}

// checkReturn binds the returned tensor / value to the model's result.
func (w *World) checkReturn(i int, st *Step, r execResult) *Divergence {
	if st.Res.H > 0 {
		if r.ret == nil {
			return w.div(i, "no-result", "the call returned no tensor")
		}
		if st.Res.H <= len(w.live) {
			// the model says an existing tensor is returned
			if w.live[st.Res.H-1] != r.ret {
				return w.div(i, "returned-identity", fmt.Sprintf("expected the call to return tensor h%d itself", st.Res.H))
			}
		} else {
			for h, t := range w.live {
				if t == r.ret {
					return w.div(i, "returned-identity", fmt.Sprintf("expected a fresh tensor, got existing h%d", h+1))
				}
			}
			w.live = append(w.live, r.ret)
		}
	}
	if len(st.Res.V) > 0 && string(st.Res.V) != "[]" && r.hasVal {
		t, err := vals.ParseTerm(st.Res.V)
		if err != nil {
			panic(err)
		}
		if t != nil {
			exp := w.Ev.Eval(t)
			w.Stats.Compared++
			if !exp.Open && !w.same(exp, r.val) {
				return w.div(i, "value", fmt.Sprintf("returned %v, expected %v (%s)", r.val, exp.V, t))
			}
		}
	}
	return nil
}

func (w *World) same(exp vals.Val, got interface{}) bool {
	if exp.Open {
		return true
	}
	if exp.Exact {
		return vals.Eq(exp.V, got)
	}
	if vals.Close(exp.V, got, 8) {
		return true
	}
	return exp.Tol > 0 && vals.Within(exp.V, got, exp.Tol)
}

func prod(s []int) int {
	p := 1
	for _, x := range s {
		p *= x
	}
	return p
}

func coordOf(k int, shape []int) []int {
	c := make([]int, len(shape))
	for i := len(shape) - 1; i >= 0; i-- {
		c[i] = k % shape[i]
		k /= shape[i]
	}
	return c
}

func eqInts(a, b []int) bool {
	if len(a) != len(b) {
		return false
	}
	for i := range a {
		if a[i] != b[i] {
			return false
		}
	}
	return true
}

// shapeAllowed: is `got` obtainable from `full` by deleting a subset of the axes in drop (1-based)?
func shapeAllowed(got, full []int, drop []int) bool {
	if prod(full) == 1 && len(got) == 0 {
		return true
	}
	dm := map[int]bool{}
	for _, d := range drop {
		dm[d-1] = true
	}
	var rec func(i, j int) bool
	rec = func(i, j int) bool {
		if i == len(full) {
			return j == len(got)
		}
		if j < len(got) && full[i] == got[j] && rec(i+1, j+1) {
			return true
		}
		return dm[i] && rec(i+1, j)
	}
	return rec(0, 0)
}

// ElemsOf reads every element of t through At in row-major order of logical coordinates.
func ElemsOf(t *tensor.Dense) (out []interface{}, err error) {
	// a panic of the library while a tensor is merely read is an observation of the code (corrupt metadata), not a crash of the harness
	defer func() {
		if p := recover(); p != nil {
			out, err = nil, fmt.Errorf("panic while reading the tensor (shape %v strides %v): %v", t.Shape(), t.Strides(), p)
		}
	}()
	return elemsOf(t)
}

func elemsOf(t *tensor.Dense) ([]interface{}, error) {
	shape := []int(t.Shape())
	n := prod(shape)
	out := make([]interface{}, n)
	for k := 0; k < n; k++ {
		v, err := t.At(coordOf(k, shape)...)
		if err != nil {
			return nil, fmt.Errorf("At(%v): %v", coordOf(k, shape), err)
		}
		out[k] = v
	}
	return out, nil
}

// MetaInvariant is the C13 metadata invariant, evaluated on every tensor every check produces:
// size = product of the shape; shape and strides address only distinct in-bounds storage positions.
func MetaInvariant(t *tensor.Dense) string {
	shape := []int(t.Shape())
	if t.Size() != prod(shape) {
		return fmt.Sprintf("Size()=%d but product of shape %v is %d", t.Size(), shape, prod(shape))
	}
	if t.IsScalar() || prod(shape) == 1 {
		return "" // a single element: every coordinate is the origin
	}
	strides := t.Strides()
	dlen := reflect.ValueOf(t.Data()).Len()
	seen := map[int]bool{}
	n := prod(shape)
	for k := 0; k < n; k++ {
		c := coordOf(k, shape)
		at := 0
		for i := range c {
			switch {
			case len(strides) == len(shape):
				at += c[i] * strides[i]
			case len(strides) == 1:
				at += c[i] * strides[0]
			default:
				return fmt.Sprintf("shape %v has %d strides %v", shape, len(strides), strides)
			}
		}
		if at < 0 || at >= dlen {
			return fmt.Sprintf("coordinate %v addresses position %d outside the %d stored elements (shape %v strides %v)", c, at, dlen, shape, strides)
		}
		if seen[at] {
			return fmt.Sprintf("two coordinates address position %d (shape %v strides %v)", at, shape, strides)
		}
		seen[at] = true
	}
	return ""
}

func (w *World) heapTerm(p *Post, cell int) *vals.Term {
	t, err := vals.ParseTerm(p.Heap[cell-1])
	if err != nil {
		panic(err)
	}
	return t
}

const interpUndef = 100000000

// compareInterp: every element equals the specification's own integer interpretation (C17).
func (w *World) compareInterp(i int) *Divergence {
	for h, xs := range w.c.IExp {
		t := w.live[h]
		els, err := ElemsOf(t)
		if err != nil || len(els) != len(xs) {
			return w.div(i, "interp", fmt.Sprintf("h%d: %d elements read, %d expected (%v)", h+1, len(els), len(xs), err))
		}
		for k, exp := range xs {
			if exp >= interpUndef {
				continue
			}
			w.Stats.Compared++
			got, ok := vals.ToInt64(els[k])
			if !ok || got != exp {
				return w.div(i, "interp", fmt.Sprintf("h%d element %d is %v; the type-generic definition gives %d (all elements %v)", h+1, k, els[k], exp, els))
			}
		}
	}
	return nil
}

// compare the observation of EVERY live tensor and of every caller-owned backing with the model.
func (w *World) compare(i int, p *Post) (*Divergence, bool) {
	if len(p.Live) != len(w.live) {
		panic(fmt.Sprintf("case %s step %d: model has %d live tensors, replay has %d", w.c.ID, i, len(p.Live), len(w.live)))
	}
	open := false
	for h, tr := range p.Live {
		if tr.Dead {
			continue
		}
		t := w.live[h]
		got := []int(t.Shape())
		if !eqInts(got, tr.Shape) {
			if full, ok := w.altFull[h]; ok && shapeAllowed(got, full, w.altDrop[h]) {
				open = true // an allowed alternative shape: later axis-numbered arguments cannot be aligned
			} else if !(len(tr.Shape) == 0 && t.IsScalar()) {
				return w.div(i, "shape", fmt.Sprintf("h%d has shape %v, expected %v", h+1, got, tr.Shape)), false
			}
		}
		if msg := MetaInvariant(t); msg != "" {
			return w.div(i, "meta-invariant", fmt.Sprintf("h%d: %s", h+1, msg)), false
		}
		els, err := ElemsOf(t)
		if err != nil {
			return w.div(i, "unreadable", fmt.Sprintf("h%d: %v", h+1, err)), false
		}
		if len(els) != len(tr.Cells) {
			return w.div(i, "shape", fmt.Sprintf("h%d has %d elements, expected %d", h+1, len(els), len(tr.Cells))), false
		}
		ev := w.evFor(&tr)
		al := p.Allocs[tr.Al-1]
		masked := len(al.Mask) > 0
		if !al.MOpen && masked != t.IsMasked() && len(tr.Cells) > 0 {
			return w.div(i, "mask-presence", fmt.Sprintf("h%d IsMasked()=%v, expected %v", h+1, t.IsMasked(), masked)), false
		}
		for k, cell := range tr.Cells {
			if masked {
				mb, open := w.maskBit(&al, cell)
				if al.MOpen {
					if mb || open {
						w.Stats.OpenPos++
						continue // masked in an operand: the value is unconstrained
					}
					goto value
				}
				got, err := t.MaskAt(coordOf(k, tr.Shape)...)
				w.Stats.Compared++
				if err != nil {
					return w.div(i, "mask", fmt.Sprintf("h%d MaskAt(%v): %v", h+1, coordOf(k, tr.Shape), err)), false
				}
				if !open && got != mb {
					return w.div(i, "mask", fmt.Sprintf("h%d mask at element %d (coord %v) is %v, expected %v", h+1, k, coordOf(k, tr.Shape), got, mb)), false
				}
				if mb && al.Kind == "l" {
					w.Stats.OpenPos++
					continue // the value under a masked position of a result is unconstrained
				}
			}
		value:
			term := w.heapTerm(p, cell)
			exp := ev.Eval(term)
			w.Stats.Compared++
			if w.Cfg.Sub != "" && term.Head != "c" && term.Head != "k" {
				key := w.Cfg.Sub + "/" + w.Cfg.D.Name
				if exp.Open {
					w.Stats.SubOpen[key]++
				} else {
					w.Stats.SubCmp[key]++
				}
			}
			if exp.Open {
				w.Stats.OpenPos++
				continue
			}
			if !w.same(exp, els[k]) {
				return w.div(i, "elems", fmt.Sprintf("h%d element %d (coord %v) is %v, expected %v = %s; all elements %v",
					h+1, k, coordOf(k, tr.Shape), els[k], exp.V, term, els)), false
			}
		}
	}
	// the frame: every caller-owned backing holds exactly what the model's heap says
	for ai, a := range p.Allocs {
		if a.Kind != "b" || ai >= len(w.backs) || !w.backs[ai].IsValid() {
			continue
		}
		b := w.backs[ai]
		for j := 0; j < a.Len; j++ {
			term := w.heapTerm(p, a.Start+j)
			exp := w.Ev.Eval(term)
			w.Stats.Compared++
			if exp.Open {
				w.Stats.OpenPos++
				continue
			}
			got := b.Index(j).Interface()
			if !w.same(exp, got) {
				return w.div(i, "storage", fmt.Sprintf("backing %d position %d holds %v, expected %v = %s; backing %v",
					ai+1, j, got, exp.V, term, b.Interface())), false
			}
		}
	}
	return nil, open
}

// compareAlt: a result whose shape differs from the model's by axes the statement allows to drop
// still has to hold the same elements in row-major order.
func (w *World) compareAlt(i int, st *Step, r execResult) *Divergence {
	p := w.finalPost()
	if st.Res.H <= 0 || st.Res.H > len(p.Live) {
		return nil
	}
	tr := p.Live[st.Res.H-1]
	if len(tr.Cells) != len(r.altElems) {
		return w.div(i, "shape", fmt.Sprintf("result has %d elements, expected %d", len(r.altElems), len(tr.Cells)))
	}
	for k, cell := range tr.Cells {
		exp := w.Ev.Eval(w.heapTerm(p, cell))
		if !w.same(exp, r.altElems[k]) {
			return w.div(i, "elems", fmt.Sprintf("result element %d is %v, expected %v", k, r.altElems[k], exp.V))
		}
	}
	return nil
}

// cellDT: the element type of the allocation a cell belongs to ("" = the element type of the run)
func (w *World) cellDT(id int) *vals.DT {
	if w.free {
		return w.Cfg.D
	}
	p := w.finalPost()
	for _, a := range p.Allocs {
		if id >= a.Start && id < a.Start+a.Len {
			switch a.Et {
			case "bool":
				return vals.ByName("bool")
			case "int":
				return vals.ByName("int")
			}
			return w.Cfg.D
		}
	}
	return w.Cfg.D
}

// noteOrderTags names the data-order circumstances of an operation (used to identify listed findings):
// "f-operand" some tensor operand is column-major; "mixed-order" operands / destination differ in data order.
func (w *World) noteOrderTags(st *Step) {
	w.curF = ""
	if w.free {
		return
	}
	switch st.Op.K {
	case "Arith", "Cmp", "Unary", "Reduce", "Arg":
		if x := decodeArr(st.Op.A); len(x) > 0 {
			if f := decodeStr(x[0]); f != "OP" {
				w.curF = f
				if st.Op.K == "Reduce" && f == "add" {
					w.curF = "sum"
				}
				if st.Op.K == "Arg" {
					w.curF = "arg" + f
				}
			}
		}
	}
	var hs []int
	a := func() []json.RawMessage { return decodeArr(st.Op.A) }
	switch st.Op.K {
	case "Arith", "Cmp":
		x := a()
		hs = append(hs, st.Op.H)
		if decodeStr(x[1]) == "TT" {
			hs = append(hs, decodeInt(x[2]))
		}
		if d := decodeInt(x[4]); d > 0 {
			hs = append(hs, d)
		}
	case "Unary":
		x := a()
		hs = append(hs, st.Op.H)
		if d := decodeInt(x[2]); d > 0 {
			hs = append(hs, d)
		}
	case "Product":
		x := a()
		hs = append(hs, st.Op.H, decodeInt(x[1]))
		if d := decodeInt(x[5]); d > 0 {
			hs = append(hs, d)
		}
	case "Reduce", "Arg", "Repeat", "RoundTrip", "Trace", "Export", "Clone", "ShallowClone", "Materialize", "SafeT", "UnsafeUn", "UnsafeBinK", "Memset", "Zero":
		hs = append(hs, st.Op.H)
	case "Concat", "Stack":
		hs = append(hs, decodeInts(a()[1])...)
	case "Copy", "CopyTo", "UnsafeBinT":
		x := a()
		hs = append(hs, st.Op.H)
		if st.Op.K == "UnsafeBinT" {
			hs = append(hs, decodeInt(x[1]))
		} else {
			hs = append(hs, decodeInts(st.Op.A)[0])
		}
	default:
		return
	}
	p := w.finalPost()
	nF, nC := 0, 0
	ords := ""
	for _, h := range hs {
		if h <= 0 || h > len(p.Live) {
			continue
		}
		if p.Live[h-1].Ord == "F" {
			nF++
			ords += "F"
		} else {
			nC++
			ords += "C"
		}
	}
	add := func(t string) {
		for _, o := range w.tags {
			if o == t {
				return
			}
		}
		w.tags = append(w.tags, t)
	}
	if nF > 0 {
		add("f-operand")
	}
	if nF > 0 && nC > 0 {
		add("mixed-order")
	}
	// the exact data-order configuration of an elementwise call: mo:<family>/<form>/<mode>/<orders of a[,b][,dest]>
	if nF > 0 {
		switch st.Op.K {
		case "Arith", "Cmp":
			x := a()
			fam := st.Op.K
			f := w.curF
			if w.Cfg.Sub != "" {
				f = w.Cfg.Sub
			}
			if st.Op.K == "Arith" && (f == "min" || f == "max") {
				fam = "MinMax"
			}
			add("mo:" + fam + "/" + decodeStr(x[1]) + "/" + decodeStr(x[3]) + "/" + ords)
		case "Unary":
			add("mo:Unary/T/" + decodeStr(a()[1]) + "/" + ords)
		}
	}
}

func (w *World) noteTags(st *Step) {
	if len(st.Res.X) == 0 || st.Res.X[0] != '{' {
		return
	}
	var x struct {
		Tags []string `json:"tags"`
	}
	if json.Unmarshal(st.Res.X, &x) == nil {
		for _, t := range x.Tags {
			dup := false
			for _, o := range w.tags {
				dup = dup || o == t
			}
			if !dup {
				w.tags = append(w.tags, t)
			}
		}
	}
}

// maskBit evaluates the model's mask entry of a cell.
func (w *World) maskBit(al *Alloc, cell int) (bit bool, open bool) {
	raw := al.Mask[cell-al.Start]
	if len(raw) > 0 && raw[0] != '[' {
		return string(raw) == "1", false
	}
	t, err := vals.ParseTerm(raw)
	if err != nil {
		panic(err)
	}
	v := w.Ev.Eval(t)
	if v.Open {
		return false, true
	}
	return v.V.(bool), false
}

func (w *World) evFor(tr *TRec) *vals.Evaluator {
	return w.Ev
}

func (w *World) T(h int) *tensor.Dense { return w.live[h-1] }

func rawArgs(st *Step) []json.RawMessage { return decodeArr(st.Op.A) }

// Applicable: can this case be run under element type d at all?  (Families restrict
// themselves through the op kinds they contain: arithmetic needs a numeric type, ...)
func Applicable(c *Case, d *vals.DT) bool {
	for i := range c.Steps {
		switch c.Steps[i].Op.K {
		case "UnsafeUn", "UnsafeBinK", "UnsafeBinT", "FMA":
			if !d.Numeric() {
				return false
			}
		case "Export":
			if strings.Contains(string(c.Steps[i].Op.A), "mat64") && !(d.Numeric() && d.Class != vals.CComplex) {
				return false
			}
		}
	}
	return true
}
