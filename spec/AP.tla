--------------------------------- MODULE AP ---------------------------------
(***************************************************************************)
(* Level 2: the access pattern AS THE CODE COMPUTES IT.                    *)
(*                                                                         *)
(* Level 1 (Base.tla) has no strides: a tensor is a shape and the cells of *)
(* its elements.  This module transcribes, statement by statement, the     *)
(* stride arithmetic of the implementation:                                *)
(*     shape.go   Shape.CalcStrides, Shape.CalcStridesColMajor,            *)
(*                IsScalarEquiv, IsVector                                  *)
(*     utils.go   CheckSlice, SliceDetails, Ltoi                           *)
(*     ap.go      AP.S (slicing), AP.T (lazy transposition)                *)
(*     dense_matop.go  Dense.Slice (the array window [ndStart, ndEnd))     *)
(* A Level-2 tensor is                                                     *)
(*     [sh, st, ws, we]   shape, strides, and the window [ws, we) of       *)
(*                        storage positions (relative to the allocation)   *)
(*                        its array header spans                           *)
(* and the refinement mapping to Level 1 is L2Cells: the storage position  *)
(* of every logical coordinate, in row-major order of coordinates.         *)
(* MC_ap.tla runs this module in lock step with the Level-1 machine and    *)
(* TLC checks, for every small shape, order, slice list and permutation,   *)
(* that the transcribed arithmetic addresses exactly the cells Level 1     *)
(* names - except in the circumstances named below as deviations, each of  *)
(* which is a listed finding (known_findings.json) that the conformance    *)
(* checks observe in the real code.                                        *)
(***************************************************************************)
EXTENDS Base

L2(sh, st, ws, we) == [sh |-> sh, st |-> st, ws |-> ws, we |-> we]

(* shape.go *)
IsScalarEquiv(sh) == \A i \in 1..Len(sh) : sh[i] = 1
IsColVec(sh) == Len(sh) = 2 /\ sh[2] = 1 /\ sh[1] > 1
IsRowVec(sh) == Len(sh) = 2 /\ sh[1] = 1 /\ sh[2] > 1
IsVector(sh) == IsColVec(sh) \/ IsRowVec(sh) \/ Len(sh) = 1

RECURSIVE ProdFrom(_, _, _)
ProdFrom(sh, a, b) == IF a > b THEN 1 ELSE sh[a] * ProdFrom(sh, a + 1, b)
(* acc := 1; for i := len(s)-1; i >= 0; i-- { retVal[i] = acc; acc *= s[i] } *)
CalcStrides(sh)         == [i \in 1..Len(sh) |-> ProdFrom(sh, i + 1, Len(sh))]
(* acc := 1; for i := 0; i < len(s); i++ { retVal[i] = acc; acc *= s[i] } *)
CalcStridesColMajor(sh) == [i \in 1..Len(sh) |-> ProdFrom(sh, 1, i - 1)]

L2New(sh, ord) == L2(sh, IF ord = "C" THEN CalcStrides(sh) ELSE CalcStridesColMajor(sh), 0, Prod(sh))

(* utils.go Ltoi, relative to the tensor's own window *)
RECURSIVE Dot2(_, _)
Dot2(a, b) == IF a = <<>> THEN 0 ELSE Head(a) * Head(b) + Dot2(Tail(a), Tail(b))
Ltoi(t, c) == IF IsScalarEquiv(t.sh) THEN 0 ELSE Dot2(c, t.st)

(* the refinement mapping: storage position (relative to the allocation) of every element, row-major *)
L2Cells(t) == [k \in 1..Prod(t.sh) |-> t.ws + Ltoi(t, CoordOf(k - 1, t.sh))]

(***************************************************************************)
(* utils.go CheckSlice / SliceDetails.  Slice arguments as in Base.tla:    *)
(* <<0>> nil, <<1, i>> the single index S(i) (Start i, End i+1, Step 0),   *)
(* <<2, s, e, st>> S(s, e, st).                                            *)
(***************************************************************************)
SlRawEnd(sl)  == IF sl[1] = 1 THEN sl[2] + 1 ELSE sl[3]
SlRawStep(sl) == IF sl[1] = 1 THEN 0 ELSE sl[4]
CheckSliceErr(sl, size) ==
    LET s == sl[2] e == SlRawEnd(sl) st == SlRawStep(sl)
    IN s > e \/ s < 0 \/ (st = 0 /\ e - s > 1) \/ s >= size
Details(sl, size) ==
    IF sl[1] = 0 THEN [s |-> 0, e |-> size, st |-> 1]
    ELSE [s |-> sl[2], e |-> Min2(SlRawEnd(sl), size), st |-> SlRawStep(sl)]

(***************************************************************************)
(* ap.go AP.S + dense_matop.go Dense.Slice.                                *)
(***************************************************************************)
SliceErr(t, sls) ==
    \/ Len(sls) > Len(t.sh)
    \/ \E i \in 1..Len(sls) : sls[i][1] # 0 /\ CheckSliceErr(sls[i], t.sh[i])

L2Slice(t, sls) ==
    LET dims == Len(t.sh)
        p    == PadSlices(sls, dims)
        d(i) == Details(p[i], t.sh[i])
        (* ndStart = ndStart + start*stride ; ndEnd = ndEnd - (size-end)*stride, ndEnd starting at t.len() *)
        ndStart == SumSeq([i \in 1..dims |-> d(i).s * t.st[i]])
        ndEnd   == (t.we - t.ws) - SumSeq([i \in 1..dims |-> (t.sh[i] - d(i).e) * t.st[i]])
        (* if step > 0 { n = (end-start)/step; if (end-start)%step > 0 && i > 0 { n++ }; if n <= 0 { n = 1 } }
           else { n = end - start }            -- i is 0-based in the code: axis 1 here is the code's i = 0 *)
        n(i) == IF d(i).st > 0
                THEN LET q  == (d(i).e - d(i).s) \div d(i).st
                         q2 == IF (d(i).e - d(i).s) % d(i).st > 0 /\ i > 1 THEN q + 1 ELSE q
                     IN IF q2 <= 0 THEN 1 ELSE q2
                ELSE d(i).e - d(i).s
        str(i) == IF d(i).st > 0 THEN t.st[i] * d(i).st ELSE t.st[i]
        full == [i \in 1..dims |-> n(i)]
        fstr == [i \in 1..dims |-> str(i)]
        (* drop any dimension with size 1 that was named by a non-nil slice *)
        D == {i \in 1..dims : full[i] = 1 /\ i <= Len(sls) /\ sls[i][1] # 0}
    IN IF ndEnd - ndStart = 1
       THEN L2(<<>>, <<>>, t.ws + ndStart, t.ws + ndEnd)          \* "scalars are a special case"
       ELSE L2(DropAxes(full, D, 1), DropAxes(fstr, D, 1), t.ws + ndStart, t.ws + ndEnd)

(***************************************************************************)
(* ap.go AP.T (the metadata of a lazy transposition; axes 0-based)         *)
(***************************************************************************)
TNoop(t, axes) == IsScalarEquiv(t.sh) \/ IsIdent(axes)
L2T(t, axes) ==
    IF TNoop(t, axes) THEN t
    ELSE IF IsVector(t.sh)
         THEN (* a vector has one meaningful stride: that of its only axis longer than 1 *)
              LET stride == IF t.sh[1] = 1 /\ Len(t.st) > 1 THEN t.st[2] ELSE t.st[1]
              IN L2(<<t.sh[2], t.sh[1]>>, <<stride, stride>>, t.ws, t.we)
         ELSE L2([i \in 1..Len(axes) |-> t.sh[axes[i] + 1]], [i \in 1..Len(axes) |-> t.st[axes[i] + 1]], t.ws, t.we)

(***************************************************************************)
(* What Level 1 demands of a Level-2 tensor (the C13 metadata invariant    *)
(* is the part of this that the real code is observed against):            *)
(***************************************************************************)
InWindow(t)  == \A k \in 1..Prod(t.sh) : L2Cells(t)[k] >= t.ws /\ L2Cells(t)[k] < t.we
Distinct(t)  == Cardinality(Range(L2Cells(t))) = Prod(t.sh)
=============================================================================
