------------------------------- MODULE Base -------------------------------
(***************************************************************************)
(* Level-1 vocabulary of the abstract tensor machine.                      *)
(*                                                                         *)
(* A tensor is a shape plus the sequence of heap-cell identities of its    *)
(* elements in ROW-MAJOR order of logical coordinates.  Strides, offsets   *)
(* and contiguity flags do not exist at this level: slicing and            *)
(* transposition are pure re-indexings of that sequence.  Everything here  *)
(* is a constant-level operator so that every configuration (exhaustive,   *)
(* simulation, trace) evaluates the very same definitions.                 *)
(*                                                                         *)
(* Conventions: axes and coordinates are 0-based as in the Go API; TLA+    *)
(* sequences are 1-based, so axis a lives at index a+1 of a shape.  Cells  *)
(* are naturals >= 1; cell c of an allocation that starts at s holds the   *)
(* storage position c - s of that allocation.                              *)
(***************************************************************************)
EXTENDS Integers, Sequences, FiniteSets

Range(s) == {s[i] : i \in DOMAIN s}
Min2(a, b) == IF a <= b THEN a ELSE b
Max2(a, b) == IF a >= b THEN a ELSE b
CeilDiv(a, b) == (a + b - 1) \div b

RECURSIVE Prod(_)
Prod(s) == IF s = <<>> THEN 1 ELSE Head(s) * Prod(Tail(s))

RECURSIVE SumSeq(_)
SumSeq(s) == IF s = <<>> THEN 0 ELSE Head(s) + SumSeq(Tail(s))

SetMin(S) == CHOOSE x \in S : \A y \in S : x <= y
SetMax(S) == CHOOSE x \in S : \A y \in S : x >= y

(* row-major rank of 0-based coordinate c in shape s, and its inverse *)
RECURSIVE RankOf(_, _)
RankOf(c, s) == IF s = <<>> THEN 0
                ELSE Head(c) * Prod(Tail(s)) + RankOf(Tail(c), Tail(s))

RECURSIVE CoordOf(_, _)
CoordOf(k, s) == IF s = <<>> THEN <<>>
                 ELSE LET p == Prod(Tail(s)) IN <<k \div p>> \o CoordOf(k % p, Tail(s))

(* column-major rank: first axis varies fastest *)
RECURSIVE CRankOf(_, _)
CRankOf(c, s) == IF s = <<>> THEN 0
                 ELSE Head(c) + Head(s) * CRankOf(Tail(c), Tail(s))

RECURSIVE CCoordOf(_, _)
CCoordOf(k, s) == IF s = <<>> THEN <<>>
                  ELSE <<k % Head(s)>> \o CCoordOf(k \div Head(s), Tail(s))

InBox(c, s) == /\ Len(c) = Len(s)
               /\ \A i \in 1..Len(s) : c[i] >= 0 /\ c[i] < s[i]

IsPerm(p, r) == /\ Len(p) = r
                /\ \A i \in 1..r : p[i] \in 0..(r-1)
                /\ \A i, j \in 1..r : i # j => p[i] # p[j]
IsIdent(p)   == \A i \in 1..Len(p) : p[i] = i - 1
Reversal(r)  == [i \in 1..r |-> r - i]
(* (p ; q): transposing by p and then the result by q is transposing by Compose(p,q) *)
Compose(p, q) == [i \in 1..Len(p) |-> p[q[i] + 1]]
InvPerm(p)   == [a \in 1..Len(p) |-> (CHOOSE i \in 1..Len(p) : p[i] = a - 1) - 1]

RemoveAt(s, i) == [j \in 1..(Len(s) - 1) |-> IF j < i THEN s[j] ELSE s[j + 1]]
InsertAt(s, i, v) == [j \in 1..(Len(s) + 1) |-> IF j < i THEN s[j] ELSE IF j = i THEN v ELSE s[j - 1]]

(***************************************************************************)
(* Slicing.  A per-axis slice argument is a tuple of integers:             *)
(*   <<0>>            nil (the whole axis)                                 *)
(*   <<1, i>>         the single index i                                   *)
(*   <<2, s, e, st>>  the range [s, e) with step st                        *)
(***************************************************************************)
SlNil      == <<0>>
SlIdx(i)   == <<1, i>>
SlRng(s, e, st) == <<2, s, e, st>>

SlStart(sl) == IF sl[1] = 0 THEN 0 ELSE sl[2]
SlStep(sl)  == IF sl[1] = 2 /\ sl[4] > 0 THEN sl[4] ELSE 1
(* number of entries on an axis of length d *)
SlLen(sl, d) == CASE sl[1] = 0 -> d
                  [] sl[1] = 1 -> 1
                  [] OTHER -> IF sl[4] = 0 THEN Min2(sl[3], d) - sl[2]
                              ELSE CeilDiv(Min2(sl[3], d) - sl[2], sl[4])
(* the statement's list: reversed, negative, start past the axis, zero step over more than one element *)
SlRejected(sl, d) ==
    \/ sl[1] = 1 /\ (sl[2] < 0 \/ sl[2] >= d)
    \/ sl[1] = 2 /\ (sl[2] > sl[3] \/ sl[2] < 0 \/ sl[2] >= d \/ sl[4] < 0
                      \/ (sl[4] = 0 /\ Min2(sl[3], d) - sl[2] > 1))
(* inputs on which the statement is silent (empty range; end before 0 is "negative") *)
SlOpen(sl, d) == sl[1] = 2 /\ (\/ sl[2] = sl[3]
                                \* zero step over more than one element only before the end is clamped
                                \/ (sl[4] = 0 /\ sl[3] - sl[2] > 1 /\ Min2(sl[3], d) - sl[2] <= 1))
SlMayDrop(sl, n) == sl[1] # 0 /\ n = 1

PadSlices(sls, r) == [i \in 1..r |-> IF i <= Len(sls) THEN sls[i] ELSE SlNil]

(* shape of the slice before any axis is dropped, and its cells *)
SliceFullShape(shape, sls) ==
    LET r == Len(shape) p == PadSlices(sls, r)
    IN [i \in 1..r |-> SlLen(p[i], shape[i])]

SliceCells(shape, cells, sls) ==
    LET r == Len(shape)
        p == PadSlices(sls, r)
        full == SliceFullShape(shape, sls)
        src(k) == LET c == CoordOf(k, full)
                  IN RankOf([i \in 1..r |-> SlStart(p[i]) + c[i] * SlStep(p[i])], shape)
    IN [k \in 1..Prod(full) |-> cells[src(k - 1) + 1]]

SliceBad(shape, sls) ==
    \/ Len(sls) > Len(shape)
    \/ \E i \in 1..Len(sls) : SlRejected(sls[i], shape[i])
SliceOpen(shape, sls) ==
    /\ Len(sls) <= Len(shape)
    /\ \E i \in 1..Len(sls) : SlOpen(sls[i], shape[i])

(* axes (1-based) that the statement allows to vanish *)
SliceDropOK(shape, sls) ==
    LET r == Len(shape) p == PadSlices(sls, r) full == SliceFullShape(shape, sls)
    IN {i \in 1..r : SlMayDrop(p[i], full[i])}

RECURSIVE DropAxes(_, _, _)
DropAxes(s, D, i) == IF s = <<>> THEN <<>>
                     ELSE (IF i \in D THEN <<>> ELSE <<Head(s)>>) \o DropAxes(Tail(s), D, i + 1)

(* extent of the storage window an axis argument spans *)
SlSpan(sl, d) == CASE sl[1] = 0 -> d [] sl[1] = 1 -> 1 [] OTHER -> Min2(sl[3], d) - sl[2]

(* the shape the library is modelled to return: every droppable axis dropped; a result
   whose storage window is a single element is a scalar (special case of the library).
   The statement allows any subset of the droppable axes to vanish; the harness accepts
   those alternatives (and then stops following that behaviour). *)
SliceShape(shape, sls) ==
    LET r == Len(shape) p == PadSlices(sls, r)
        full == SliceFullShape(shape, sls)
    IN IF \A i \in 1..r : SlSpan(p[i], shape[i]) = 1 THEN <<>>
       ELSE DropAxes(full, SliceDropOK(shape, sls), 1)

(***************************************************************************)
(* Transposition by permutation p (0-based axes, 1-based sequence):        *)
(* result axis i is source axis p[i]; element c of the result is element   *)
(* oc of the source with oc[p[i]] = c[i].                                  *)
(***************************************************************************)
TransShape(shape, p) == [i \in 1..Len(shape) |-> shape[p[i] + 1]]
TransCells(shape, cells, p) ==
    LET r == Len(shape)
        nsh == TransShape(shape, p)
        inv == InvPerm(p)
        src(k) == LET c == CoordOf(k, nsh)
                  IN RankOf([a \in 1..r |-> c[inv[a] + 1]], shape)
    IN [k \in 1..Prod(nsh) |-> cells[src(k - 1) + 1]]

(* NumPy rollaxis as a permutation *)
RollPerm(r, axis, start) ==
    LET st   == IF axis < start THEN start - 1 ELSE start
        rest == RemoveAt([i \in 1..r |-> i - 1], axis + 1)
    IN InsertAt(rest, st + 1, axis)

(***************************************************************************)
(* Construction: cells of a fresh allocation starting at cell `start`.     *)
(*   "C"  row-major over the raw backing                                   *)
(*   "F"  column-major declared over the raw backing                       *)
(***************************************************************************)
NewCells(shape, start, ord) ==
    IF ord = "C" THEN [k \in 1..Prod(shape) |-> start + (k - 1)]
    ELSE [k \in 1..Prod(shape) |-> start + CRankOf(CoordOf(k - 1, shape), shape)]

(* storage order of a cell sequence: ascending cell ids *)
RECURSIVE SortedSeq(_)
SortedSeq(S) == IF S = {} THEN <<>> ELSE LET m == SetMin(S) IN <<m>> \o SortedSeq(S \ {m})

(* flat element sequence of a tensor in its own data order *)
FlatOrder(shape, cells, ord) ==
    IF ord = "C" THEN cells
    ELSE [k \in 1..Len(cells) |-> cells[RankOf(CCoordOf(k - 1, shape), shape) + 1]]
(* inverse: cells (row-major logical) of a tensor of `shape` whose flat sequence in order ord is f *)
FromFlat(shape, f, ord) ==
    IF ord = "C" THEN f
    ELSE [k \in 1..Len(f) |-> f[CRankOf(CoordOf(k - 1, shape), shape) + 1]]

Injective(s) == \A i, j \in DOMAIN s : i # j => s[i] # s[j]

(***************************************************************************)
(* Reductions and products on cell sequences (structure only: WHICH cells  *)
(* are combined, in which order).                                          *)
(***************************************************************************)
(* the cells of the fibre of `shape` along the axis set A (1-based) at outer
   position k of the reduced shape, in increasing logical order *)
ReducedShape(shape, A) == DropAxes(shape, A, 1)
RECURSIVE KeepAxes(_, _, _)
KeepAxes(s, A, i) == IF s = <<>> THEN <<>>
                     ELSE (IF i \in A THEN <<Head(s)>> ELSE <<>>) \o KeepAxes(Tail(s), A, i + 1)
(* merge an outer coordinate (over the kept axes) and an inner coordinate (over A) *)
RECURSIVE MergeCoord(_, _, _, _, _)
MergeCoord(r, A, oc, ic, i) ==
    IF i > r THEN <<>>
    ELSE IF i \in A THEN <<Head(ic)>> \o MergeCoord(r, A, oc, Tail(ic), i + 1)
         ELSE <<Head(oc)>> \o MergeCoord(r, A, Tail(oc), ic, i + 1)
Fibre(shape, cells, A, k) ==
    LET osh == ReducedShape(shape, A)
        ish == KeepAxes(shape, A, 1)
        oc  == CoordOf(k, osh)
    IN [j \in 1..Prod(ish) |->
          cells[RankOf(MergeCoord(Len(shape), A, oc, CoordOf(j - 1, ish), 1), shape) + 1]]

=============================================================================
