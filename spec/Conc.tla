-------------------------------- MODULE Conc --------------------------------
(***************************************************************************)
(* C18: goroutines that only READ the tensors they share.                  *)
(*                                                                         *)
(* Each goroutine executes operations; an operation is the sequence of     *)
(* accesses it makes to SHARED state, as the code performs them:           *)
(*   <<"rd", x>>     read the metadata (shape, strides, pending transpose) *)
(*                   and the data of shared tensor x                       *)
(*   <<"wr", x, v>>  write metadata word v into shared tensor x            *)
(*   <<"get", p>> / <<"put", p>>  take / give back an object of pool p     *)
(*                   (the pools are internally synchronised: atomic)       *)
(* The step lists of the operations are the constant OpSteps; the harness  *)
(* binds them to the code: it runs every operation of the read-only        *)
(* alphabet alone with the metadata hooks on and compares the recorded     *)
(* writes to shared operands with OpSteps (write-set conformance).         *)
(*                                                                         *)
(* A read of x that happens while another goroutine is between two writes  *)
(* of x (or concurrently with one) sees a state the sequential execution   *)
(* never produces: that is both the data race and the wrong result.        *)
(***************************************************************************)
EXTENDS Integers, Sequences, FiniteSets, TLC

CONSTANTS Procs,      \* goroutines
          Shared,     \* shared tensors
          ProgramSet, \* the programs a goroutine may run: a set of sequences of operation names
          OpSteps     \* [operation name -> Seq(step)]

VARIABLES Programs,  \* [Procs -> ProgramSet], chosen initially: every assignment is explored
          pc,        \* [Procs -> <<op index, step index>>]
          meta,      \* [Shared -> Nat]   the metadata word of each shared tensor (0 = as constructed)
          seen,      \* [Procs -> Seq(<<x, value>>)]  what each goroutine's reads returned
          pool,      \* number of objects in the (single, synchronised) pool
          writers    \* [Shared -> SUBSET Procs]  goroutines that have written x and not yet restored it

vars == <<Programs, pc, meta, seen, pool, writers>>

Init == /\ Programs \in [Procs -> ProgramSet]
        /\ pc = [p \in Procs |-> <<1, 1>>]
        /\ meta = [x \in Shared |-> 0]
        /\ seen = [p \in Procs |-> <<>>]
        /\ pool = 0
        /\ writers = [x \in Shared |-> {}]

Done(p) == pc[p][1] > Len(Programs[p])
CurSteps(p) == OpSteps[Programs[p][pc[p][1]]]
Advance(p) == IF pc[p][2] >= Len(CurSteps(p)) THEN <<pc[p][1] + 1, 1>> ELSE <<pc[p][1], pc[p][2] + 1>>

Step(p) ==
    /\ ~Done(p)
    /\ Len(CurSteps(p)) > 0
    /\ LET s == CurSteps(p)[pc[p][2]]
       IN CASE s[1] = "rd"  -> /\ seen' = [seen EXCEPT ![p] = Append(@, <<s[2], meta[s[2]]>>)]
                               /\ UNCHANGED <<meta, pool, writers>>
            [] s[1] = "wr"  -> /\ meta' = [meta EXCEPT ![s[2]] = s[3]]
                               /\ writers' = [writers EXCEPT ![s[2]] = IF s[3] = 0 THEN @ \ {p} ELSE @ \cup {p}]
                               /\ UNCHANGED <<seen, pool>>
            [] s[1] = "get" -> /\ pool' = IF pool > 0 THEN pool - 1 ELSE 0
                               /\ UNCHANGED <<meta, seen, writers>>
            [] s[1] = "put" -> /\ pool' = pool + 1
                               /\ UNCHANGED <<meta, seen, writers>>
    /\ pc' = [pc EXCEPT ![p] = Advance(p)]
    /\ UNCHANGED Programs

Skip(p) == /\ ~Done(p) /\ Len(CurSteps(p)) = 0
           /\ pc' = [pc EXCEPT ![p] = <<pc[p][1] + 1, 1>>]
           /\ UNCHANGED <<Programs, meta, seen, pool, writers>>

Next == \E p \in Procs : Step(p) \/ Skip(p)
Spec == Init /\ [][Next]_vars

(* shared tensors are read-only: no goroutine ever writes one *)
SharedNeverWritten == \A x \in Shared : meta[x] = 0 /\ writers[x] = {}

(* every goroutine reads what it would read running alone: the metadata as constructed, or what it
   has itself written and not yet restored *)
ResultsSequential ==
    \A p \in Procs : \A i \in 1..Len(seen[p]) :
        seen[p][i][2] = 0 \/ (\E q \in {p} : q \in writers[seen[p][i][1]])

(* a read of x while ANOTHER goroutine has x modified: the race *)
NoReadDuringForeignWrite ==
    \A p \in Procs : ~Done(p) /\ Len(CurSteps(p)) > 0 =>
        LET s == CurSteps(p)[pc[p][2]]
        IN s[1] = "rd" => writers[s[2]] \subseteq {p}
=============================================================================
