-------------------------------- MODULE Conc --------------------------------
(***************************************************************************)
(* C18: goroutines that only READ the tensors they share.                  *)
(*                                                                         *)
(* Each goroutine executes operations; an operation is the sequence of     *)
(* accesses it makes to SHARED state, as the code performs them:           *)
(*   <<"rd", x>>     read the metadata (shape, strides, pending transpose) *)
(*                   and the data of shared tensor x                       *)
(*   <<"wr", x, v>>  write metadata word v into shared tensor x            *)
(*   <<"get", k, s>> take an object of pool k (a recycled one if the pool   *)
(*                   holds any, else a new one) into the operation's slot s *)
(*   <<"put", k, s>> give the object in slot s back to pool k               *)
(*                   (the pools are internally synchronised: each step is   *)
(*                   atomic; the OBJECTS are not: whoever holds one uses it *)
(*                   without further synchronisation)                       *)
(* The step lists of the operations are the constant OpSteps; the harness  *)
(* binds them to the code: it runs every operation of the read-only        *)
(* alphabet alone with the metadata hooks on and compares the recorded     *)
(* writes to shared operands with OpSteps (write-set conformance).         *)
(*                                                                         *)
(* A read of x that happens while another goroutine is between two writes  *)
(* of x (or concurrently with one) sees a state the sequential execution   *)
(* never produces: that is both the data race and the wrong result.        *)
(***************************************************************************)
EXTENDS Integers, Sequences, FiniteSets, TLC

PoolKinds == {"Dense", "Opt", "Header"}
MaxSlots == 8

CONSTANTS Procs,      \* goroutines
          Shared,     \* shared tensors
          ProgramSet, \* the programs a goroutine may run: a set of sequences of operation names
          OpSteps     \* [operation name -> Seq(step)]

VARIABLES Programs,  \* [Procs -> ProgramSet], chosen initially: every assignment is explored
          pc,        \* [Procs -> <<op index, step index>>]
          meta,      \* [Shared -> Nat]   the metadata word of each shared tensor (0 = as constructed)
          seen,      \* [Procs -> Seq(<<x, value>>)]  what each goroutine's reads returned
          pool,      \* [pool kind -> Seq(object)]  the recycled objects lying in each pool
          slots,     \* [Procs -> [slot -> object]]  the objects the running operation of each goroutine refers to
          held,      \* [Procs -> SUBSET object]  objects a goroutine has taken and not yet given back
          nextObj,   \* objects are numbered as they are created
          writers    \* [Shared -> SUBSET Procs]  goroutines that have written x and not yet restored it

vars == <<Programs, pc, meta, seen, pool, slots, held, nextObj, writers>>

Init == /\ Programs \in [Procs -> ProgramSet]
        /\ pc = [p \in Procs |-> <<1, 1>>]
        /\ meta = [x \in Shared |-> 0]
        /\ seen = [p \in Procs |-> <<>>]
        /\ pool = [k \in PoolKinds |-> <<>>]
        /\ slots = [p \in Procs |-> <<>>]
        /\ held = [p \in Procs |-> {}]
        /\ nextObj = 1
        /\ writers = [x \in Shared |-> {}]

Done(p) == pc[p][1] > Len(Programs[p])
CurSteps(p) == OpSteps[Programs[p][pc[p][1]]]
Advance(p) == IF pc[p][2] >= Len(CurSteps(p)) THEN <<pc[p][1] + 1, 1>> ELSE <<pc[p][1], pc[p][2] + 1>>

Step(p) ==
    /\ ~Done(p)
    /\ Len(CurSteps(p)) > 0
    /\ LET s == CurSteps(p)[pc[p][2]]
           SlotOf(q, k) == IF k \in DOMAIN slots[q] THEN slots[q][k] ELSE 0
       IN CASE s[1] = "rd"  -> /\ seen' = [seen EXCEPT ![p] = Append(@, <<s[2], meta[s[2]]>>)]
                               /\ UNCHANGED <<meta, pool, slots, held, nextObj, writers>>
            [] s[1] = "wr"  -> /\ meta' = [meta EXCEPT ![s[2]] = s[3]]
                               /\ writers' = [writers EXCEPT ![s[2]] = IF s[3] = 0 THEN @ \ {p} ELSE @ \cup {p}]
                               /\ UNCHANGED <<seen, pool, slots, held, nextObj>>
            [] s[1] = "get" -> LET recycled == pool[s[2]] # <<>>
                                   o == IF recycled THEN Head(pool[s[2]]) ELSE nextObj
                               IN /\ pool' = IF recycled THEN [pool EXCEPT ![s[2]] = Tail(@)] ELSE pool
                                  /\ nextObj' = IF recycled THEN nextObj ELSE nextObj + 1
                                  /\ slots' = [slots EXCEPT ![p] = [k \in 1..MaxSlots |-> IF k = s[3] THEN o ELSE SlotOf(p, k)]]
                                  /\ held' = [held EXCEPT ![p] = @ \cup {o}]
                                  /\ UNCHANGED <<meta, seen, writers>>
            [] s[1] = "put" -> LET o == SlotOf(p, s[3])
                               IN /\ pool' = [pool EXCEPT ![s[2]] = Append(@, o)]     \* also when the object is not held any more
                                  /\ held' = [held EXCEPT ![p] = @ \ {o}]
                                  /\ UNCHANGED <<meta, seen, slots, nextObj, writers>>
    /\ pc' = [pc EXCEPT ![p] = Advance(p)]
    /\ UNCHANGED Programs

Skip(p) == /\ ~Done(p) /\ Len(CurSteps(p)) = 0
           /\ pc' = [pc EXCEPT ![p] = <<pc[p][1] + 1, 1>>]
           /\ UNCHANGED <<Programs, meta, seen, pool, slots, held, nextObj, writers>>

Next == \E p \in Procs : Step(p) \/ Skip(p)
Spec == Init /\ [][Next]_vars

(* shared tensors are read-only: no goroutine ever writes one *)
SharedNeverWritten == \A x \in Shared : meta[x] = 0 /\ writers[x] = {}

(* every goroutine reads what it would read running alone: the metadata as constructed, or what it
   has itself written and not yet restored *)
ResultsSequential ==
    \A p \in Procs : \A i \in 1..Len(seen[p]) :
        seen[p][i][2] = 0 \/ (\E q \in {p} : q \in writers[seen[p][i][1]])

(* a pooled object (option struct, scalar header, tensor struct) is never in the hands of two goroutines, and never
   lies in a pool while a goroutine still holds it: else one goroutine's options / scalar reach another's call *)
PoolExclusive ==
    /\ \A p, q \in Procs : p # q => held[p] \cap held[q] = {}
    /\ \A k \in PoolKinds : \A i, j \in 1..Len(pool[k]) : i # j => pool[k][i] # pool[k][j]

(* a read of x while ANOTHER goroutine has x modified: the race *)
NoReadDuringForeignWrite ==
    \A p \in Procs : ~Done(p) /\ Len(CurSteps(p)) > 0 =>
        LET s == CurSteps(p)[pc[p][2]]
        IN s[1] = "rd" => writers[s[2]] \subseteq {p}
=============================================================================
