------------------------------ MODULE FlatIter ------------------------------
(***************************************************************************)
(* Level 2: the flat iterator AS THE CODE STEPS IT (iterator.go:           *)
(* newFlatIterator, Reset, Next, singleNext, singlePrevious, ndNext,       *)
(* ndPrevious), over a Level-2 access pattern (AP.tla).                    *)
(* State: [track, next, last, done, rev].  `outerFirst` is never set by    *)
(* the library, so colMajorNDNext is unreachable and not transcribed.      *)
(* MC_ap checks that, for every tensor the Level-2 slicing / transposition *)
(* arithmetic produces, the offsets this machine yields are exactly the    *)
(* Level-1 iteration order (Iter.tla: position k has offset                *)
(* cells[k+1] - cells[1]), forwards and backwards, and that the tracked    *)
(* coordinate is the coordinate of the position the next call yields.      *)
(***************************************************************************)
EXTENDS AP

IsVectorLikeShape(sh) == Cardinality({i \in 1..Len(sh) : sh[i] # 1}) <= 1
AllOnes(s) == \A i \in 1..Len(s) : s[i] = 1
(* ap.go: AP.IsVectorLike = shape.IsVectorLike() && allones(strides) *)
APIsVectorLike(t) == IsVectorLikeShape(t.sh) /\ AllOnes(t.st)
(* for d, i := range shape { if i != 1 { dim = d; break } }   (1-based here; 1 when none) *)
VeclikeDim(t) == IF APIsVectorLike(t) /\ \E i \in 1..Len(t.sh) : t.sh[i] # 1
                 THEN SetMin({i \in 1..Len(t.sh) : t.sh[i] # 1}) ELSE 1
ItIsScalar(t) == t.sh = <<>>
ItIsVector(t) == APIsVectorLike(t)
ItSize(t)     == Prod(t.sh)

ItReset(t, rev) ==
    IF rev THEN [track |-> [i \in 1..Len(t.sh) |-> t.sh[i] - 1],
                 next  |-> IF ItIsScalar(t) THEN 0
                           ELSE IF ItIsVector(t) THEN (t.sh[VeclikeDim(t)] - 1) * t.st[VeclikeDim(t)]
                           ELSE SumSeq([i \in 1..Len(t.sh) |-> (t.sh[i] - 1) * t.st[i]]),
                 last |-> 0, done |-> FALSE, rev |-> TRUE]
    ELSE [track |-> [i \in 1..Len(t.sh) |-> 0], next |-> 0, last |-> 0, done |-> FALSE, rev |-> FALSE]

(* for i := v; i >= 0; i-- { track[i]++; if track[i] == shape[i] { if i == 0 {done}; track[i] = 0; next -= (shape[i]-1)*stride[i]; continue }; next += stride[i]; break } *)
RECURSIVE NdNextFrom(_, _, _)
NdNextFrom(t, it, i) ==
    IF i = 0 THEN it
    ELSE LET tr == it.track[i] + 1
         IN IF tr = t.sh[i]
            THEN NdNextFrom(t, [it EXCEPT !.track[i] = 0, !.next = it.next - (t.sh[i] - 1) * t.st[i],
                                          !.done = it.done \/ i = 1], i - 1)
            ELSE [it EXCEPT !.track[i] = tr, !.next = it.next + t.st[i]]

(* for i := len-1; i >= 0; i-- { track[i]--; if track[i] < 0 { if i == 0 {done}; track[i] = shape[i]-1; next += (shape[i]-1)*stride[i]; continue }; next -= stride[i]; break } *)
RECURSIVE NdPrevFrom(_, _, _)
NdPrevFrom(t, it, i) ==
    IF i = 0 THEN it
    ELSE LET tr == it.track[i] - 1
         IN IF tr < 0
            THEN NdPrevFrom(t, [it EXCEPT !.track[i] = t.sh[i] - 1, !.next = it.next + (t.sh[i] - 1) * t.st[i],
                                          !.done = it.done \/ i = 1], i - 1)
            ELSE [it EXCEPT !.track[i] = tr, !.next = it.next - t.st[i]]

(* Next: returns [it, idx, err] *)
ItNext(t, it) ==
    IF it.done THEN [it |-> it, idx |-> -1, err |-> TRUE]
    ELSE IF ItIsScalar(t) THEN [it |-> [it EXCEPT !.done = TRUE], idx |-> 0, err |-> FALSE]
    ELSE IF ItIsVector(t)
         THEN LET d == VeclikeDim(t)
              IN IF it.rev
                 THEN [it |-> [it EXCEPT !.last = it.next, !.next = it.next - 1, !.track[d] = it.track[d] - 1,
                                         !.done = it.track[d] - 1 < 0], idx |-> it.next, err |-> FALSE]
                 ELSE [it |-> [it EXCEPT !.last = it.next, !.next = it.next + 1, !.track[d] = it.track[d] + 1,
                                         !.done = it.track[d] + 1 >= ItSize(t)], idx |-> it.next, err |-> FALSE]
    ELSE LET base == [it EXCEPT !.last = it.next]
         IN [it |-> IF it.rev THEN NdPrevFrom(t, base, Len(t.sh)) ELSE NdNextFrom(t, base, Len(t.sh)),
             idx |-> it.next, err |-> FALSE]

(* everything the iterator yields from a Reset until it reports exhaustion: offsets and the coordinate
   tracked BEFORE each call (the coordinate of the position that call yields) *)
RECURSIVE Drain(_, _, _, _)
Drain(t, it, fuel, acc) ==
    IF fuel = 0 THEN [offs |-> acc.offs, coords |-> acc.coords, exhausted |-> FALSE]
    ELSE LET r == ItNext(t, it)
         IN IF r.err THEN [offs |-> acc.offs, coords |-> acc.coords, exhausted |-> TRUE]
            ELSE Drain(t, r.it, fuel - 1, [offs |-> Append(acc.offs, r.idx), coords |-> Append(acc.coords, it.track)])

Run(t, rev) == Drain(t, ItReset(t, rev), ItSize(t) + 2, [offs |-> <<>>, coords |-> <<>>])

(* Level 1 (Iter.tla): position k has offset cells[k+1] - cells[1]; reversed: positions n-1..0 *)
L1Offsets(t) == LET c == L2Cells(t) IN [k \in 1..Len(c) |-> c[k] - c[1]]
RevSeq(s) == [k \in 1..Len(s) |-> s[Len(s) + 1 - k]]

IterFwdOK(t) == LET r == Run(t, FALSE)
                IN /\ r.exhausted /\ r.offs = L1Offsets(t)
                   /\ \A k \in 1..Len(r.coords) : r.coords[k] = CoordOf(k - 1, t.sh)
IterRevOK(t) == LET r == Run(t, TRUE)
                IN r.exhausted /\ r.offs = RevSeq(L1Offsets(t))
=============================================================================
