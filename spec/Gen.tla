-------------------------------- MODULE Gen --------------------------------
(***************************************************************************)
(* Finite argument spaces for the exhaustive configurations.               *)
(***************************************************************************)
EXTENDS Base

RECURSIVE SeqProd(_)
(* all sequences s with s[i] \in sets[i] *)
SeqProd(sets) == IF sets = <<>> THEN {<<>>}
                 ELSE {<<x>> \o y : x \in Head(sets), y \in SeqProd(Tail(sets))}

(* all shapes of rank r with every dim in 1..dmax *)
ShapesOfRank(r, dmax) == [1..r -> 1..dmax]
ShapesUpTo(rmin, rmax, dmax) == UNION {ShapesOfRank(r, dmax) : r \in rmin..rmax}

Perms(r) == {p \in [1..r -> 0..(r - 1)] : \A i, j \in 1..r : i # j => p[i] # p[j]}

(* the complete per-axis slice space of the statement of C02:
   nil, single index i in -1..d, range (s,e,st) with s in -1..d, e in 0..d+1, st in 0..maxstep *)
AxisSlicesFull(d, maxstep) ==
    {SlNil} \cup {SlIdx(i) : i \in (-1)..d}
            \cup {SlRng(s, e, st) : s \in (-1)..d, e \in 0..(d + 1), st \in 0..maxstep}

(* valid ones only (accepted by the statement and not left open) *)
AxisSlicesValid(d, maxstep) ==
    {sl \in AxisSlicesFull(d, maxstep) : ~SlRejected(sl, d) /\ ~SlOpen(sl, d)}

(* a small palette: nil, first, last, tail, head, stepped *)
AxisPalette(d) ==
    {SlNil, SlIdx(0), SlIdx(d - 1)}
      \cup (IF d >= 2 THEN {SlRng(1, d, 1), SlRng(0, d - 1, 1), SlRng(0, d, 2)} ELSE {})
      \cup (IF d >= 3 THEN {SlRng(1, d, 2), SlRng(1, d - 1, 1)} ELSE {})

AxisPaletteSmall(d) ==
    {SlNil, SlIdx(d - 1)} \cup (IF d >= 2 THEN {SlRng(1, d, 1), SlRng(0, d, 2)} ELSE {})

(* slice lists over per-axis sets F(d); also the shorter lists (fewer slices than axes) *)
SliceListsFull(shape, F(_)) == SeqProd([i \in 1..Len(shape) |-> F(shape[i])])
SliceListsPrefix(shape, F(_)) ==
    UNION {SeqProd([i \in 1..n |-> F(shape[i])]) : n \in 1..Len(shape)}

(* one axis ranges over G (the full space), the others over F (a palette); every axis takes G in turn *)
SliceListsOneFull(shape, F(_), G(_)) ==
    UNION {SeqProd([i \in 1..n |-> IF i = j THEN G(shape[i]) ELSE F(shape[i])]) : <<n, j>> \in
              {<<n, j>> \in (1..Len(shape)) \X (1..Len(shape)) : j <= n}}

(* all factorisations of n into exactly r factors >= 1 *)
RECURSIVE Factorisations(_, _)
Factorisations(n, r) ==
    IF r = 0 THEN (IF n = 1 THEN {<<>>} ELSE {})
    ELSE UNION {{<<d>> \o f : f \in Factorisations(n \div d, r - 1)} : d \in {d \in 1..n : n % d = 0}}

=============================================================================
