------------------------------ MODULE InplaceT ------------------------------
(***************************************************************************)
(* Level 2: the in-place physical transposition of the `inplacetranspose`  *)
(* build AS THE CODE PERFORMS IT (defaultengine_matop_transpose_inplace.go *)
(* denseTranspose1/2/4/8/Arbitrary - they differ only in the element size  *)
(* - with dense_matop.go transposeIndex and utils.go Itol): cycle          *)
(* following with a bitmap of the positions already in place.              *)
(*                                                                         *)
(*   track := {0, size-1}; saved := zero; i := 1                           *)
(*   if len(data) < 4 { return }                                           *)
(*   loop: dest := transposeIndex(i)                                       *)
(*         if i, dest both tracked: data[i] = saved; saved = zero;         *)
(*                advance i to the next untracked position or stop         *)
(*         else: track i; swap(data[i], saved); i = dest                   *)
(*                                                                         *)
(* The storage is modelled as the sequence of the ORIGINAL cell identities *)
(* (0 is the zero value `saved` starts with).  MC_inplace checks, for      *)
(* every shape and every permutation in bounds, that the storage the       *)
(* algorithm leaves is exactly the row-major order of the transposed       *)
(* tensor (Level 1: TransCells), i.e. that it refines Level-1 Transpose    *)
(* for a tensor whose saved access pattern is the standard one.            *)
(***************************************************************************)
EXTENDS AP

(* utils.go Itol: coord, i = divmod(i, strides[d]) for each axis *)
RECURSIVE ItolFrom(_, _, _)
ItolFrom(i, strides, d) ==
    IF d > Len(strides) THEN <<>>
    ELSE <<i \div strides[d]>> \o ItolFrom(i % strides[d], strides, d + 1)
Itol(i, strides) == ItolFrom(i, strides, 1)

(* dense_matop.go transposeIndex: index += oldCoord[axis] * strides[j] for j, axis in the pattern *)
TransposeIndex(i, oshape, ostrides, axes, expStrides) ==
    LET oc == Itol(i, ostrides)
    IN SumSeq([j \in 1..Len(axes) |-> oc[axes[j] + 1] * expStrides[j]])

RECURSIVE NextUntracked(_, _, _)
NextUntracked(i, size, track) == IF i < size /\ i \in track THEN NextUntracked(i + 1, size, track) ELSE i

RECURSIVE Cycle(_, _, _, _, _, _, _, _, _)
Cycle(data, saved, i, track, size, oshape, ostrides, axes, expStrides) ==
    LET dest == TransposeIndex(i, oshape, ostrides, axes, expStrides)
    IN IF i \in track /\ dest \in track
       THEN LET d2 == [data EXCEPT ![i + 1] = saved]
                i2 == NextUntracked(i, size, track)
            IN IF i2 >= size THEN d2
               ELSE Cycle(d2, 0, i2, track, size, oshape, ostrides, axes, expStrides)
       ELSE Cycle([data EXCEPT ![i + 1] = saved], data[i + 1], dest, track \cup {i}, size, oshape, ostrides, axes, expStrides)

(* the storage after the in-place transposition of a contiguous row-major tensor of shape `oshape` by `axes` *)
InplaceTranspose(oshape, axes) ==
    LET size == Prod(oshape)
        data == [k \in 1..size |-> k]
        nshape == [j \in 1..Len(axes) |-> oshape[axes[j] + 1]]
    IN IF size < 4 THEN data          \* "if len(data) < 4 { return }"
       ELSE Cycle(data, 0, 1, {0, size - 1}, size, oshape, CalcStrides(oshape), axes, CalcStrides(nshape))

(* Level 1: storage position k of the physically transposed tensor holds its k-th element in row-major order *)
Expected(oshape, axes) == TransCells(oshape, [k \in 1..Prod(oshape) |-> k], axes)
InplaceCorrect(oshape, axes) == InplaceTranspose(oshape, axes) = Expected(oshape, axes)
=============================================================================
