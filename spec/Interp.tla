------------------------------- MODULE Interp -------------------------------
(***************************************************************************)
(* The ONE type-generic definition of the operations (C17): value terms    *)
(* interpreted over the integers.  Every element type that can represent   *)
(* the operand values and the exact result must deliver this number.       *)
(* Undef marks results that are not integers or not defined (inexact       *)
(* division, division by zero): no agreement is demanded there.            *)
(***************************************************************************)
EXTENDS Integers, Sequences

Undef == 1000000000
CellVal(i)  == ((i * 7) % 11) + 1          \* the harness palette "interp" stores exactly these values
ConstVal(j) == (j % 3) + 2

IsU(x) == x = Undef
TruncDiv(a, b) == IF (a >= 0) = (b > 0) \/ a % b = 0 THEN a \div b ELSE (a \div b) + 1
Abs(a) == IF a < 0 THEN -a ELSE a

RECURSIVE IPow(_, _)
IPow(a, n) == IF n = 0 THEN 1 ELSE a * IPow(a, n - 1)

IBin(f, a, b) ==
    IF IsU(a) \/ IsU(b) THEN Undef
    ELSE CASE f = "add" -> a + b
           [] f = "sub" -> a - b
           [] f = "mul" -> a * b
           [] f = "div" -> IF b = 0 \/ a % b # 0 THEN Undef ELSE a \div b
           [] f = "mod" -> IF b <= 0 \/ a < 0 THEN Undef ELSE a % b
           [] f = "pow" -> IF b < 0 \/ b > 3 THEN Undef ELSE IPow(a, b)
           [] f = "min" -> IF a < b THEN a ELSE b
           [] f = "max" -> IF a > b THEN a ELSE b

ICmp(f, a, b) ==
    IF IsU(a) \/ IsU(b) THEN Undef
    ELSE LET r == CASE f = "lt" -> a < b [] f = "gt" -> a > b [] f = "lte" -> a <= b
                     [] f = "gte" -> a >= b [] f = "eq" -> a = b [] f = "ne" -> a # b
         IN IF r THEN 1 ELSE 0

IUn(f, a) ==
    IF IsU(a) THEN Undef
    ELSE CASE f = "neg" -> -a
           [] f = "square" -> a * a
           [] f = "cube" -> a * a * a
           [] f = "abs" -> Abs(a)
           [] f = "sign" -> IF a < 0 THEN -1 ELSE IF a > 0 THEN 1 ELSE 0
           [] f = "inv" -> IF a = 1 THEN 1 ELSE IF a = -1 THEN -1 ELSE Undef
           [] f = "apply" -> a * 3 + 1
           [] OTHER -> Undef

RECURSIVE IEval(_)
IFold(f, xs) == LET RECURSIVE go(_, _)
                    go(acc, i) == IF i > Len(xs) THEN acc ELSE go(IBin(f, acc, IEval(xs[i])), i + 1)
                IN go(IEval(xs[1]), 2)
IArg(f, xs) ==
    LET vs == [i \in 1..Len(xs) |-> IEval(xs[i])]
        best == CHOOSE i \in 1..Len(vs) :
                   /\ \A j \in 1..Len(vs) : (IF f = "max" THEN vs[j] <= vs[i] ELSE vs[j] >= vs[i])
                   /\ \A j \in 1..(i - 1) : vs[j] # vs[i]
    IN IF \E i \in 1..Len(vs) : IsU(vs[i]) THEN Undef ELSE best - 1
IEval(t) ==
    CASE t[1] = "c" -> CellVal(t[2])
      [] t[1] = "k" -> ConstVal(t[2])
      [] t[1] = "z" -> 0
      [] t[1] = "ix" -> t[2]
      [] t[1] = "bin" -> IBin(t[2], IEval(t[3]), IEval(t[4]))
      [] t[1] = "cmp" -> ICmp(t[2], IEval(t[3]), IEval(t[4]))
      [] t[1] = "b" -> IEval(t[2])
      [] t[1] = "un" -> IUn(t[2], IEval(t[3]))
      [] t[1] = "clamp" -> LET a == IEval(t[2]) lo == IEval(t[3]) hi == IEval(t[4])
                           IN IF a < lo THEN lo ELSE IF a > hi THEN hi ELSE a
      [] t[1] = "fold" -> IFold(t[2], t[3])
      [] t[1] = "arg" -> IArg(t[2], t[3])
      [] t[1] = "argm" -> LET i == IArg(t[2], t[3]) IN IF IsU(i) THEN Undef ELSE t[4][i + 1]
      [] t[1] = "dot" -> LET RECURSIVE go(_, _)
                             go(acc, i) == IF i > Len(t[2]) THEN acc
                                           ELSE go(IBin("add", acc, IBin("mul", IEval(t[2][i][1]), IEval(t[2][i][2]))), i + 1)
                         IN go(0, 1)
      [] OTHER -> Undef
=============================================================================
