-------------------------------- MODULE Iter --------------------------------
(***************************************************************************)
(* Level 1: what an iterator over a tensor is.  The positions 0..n-1 are   *)
(* the logical coordinates in row-major order; the offset of position k is *)
(* the storage position of that element relative to the tensor's own       *)
(* window (the element at the origin is at offset 0).                      *)
(*                                                                         *)
(* An iterator is the state [pos, rev, done]:                              *)
(*   Next   yields Off(pos) and moves one position in the direction of     *)
(*          travel; after the last position it reports exhaustion          *)
(*   Reset  restarts; SetReverse / SetForward fix the direction and        *)
(*          restart; Start = Reset ; Next                                  *)
(*   Coord  is the coordinate of the position Next would yield             *)
(* For a masked tensor (mask m over positions) NextValid / NextInvalid     *)
(* advance to the next position whose mask is FALSE / TRUE and report how  *)
(* many positions they advanced (negative when travelling backwards).      *)
(***************************************************************************)
EXTENDS Base

IterInit(n) == [pos |-> 0, rev |-> FALSE, done |-> FALSE]
IterReset(st, n) == [st EXCEPT !.pos = IF st.rev THEN n - 1 ELSE 0, !.done = FALSE]

Off(cells, k) == cells[k + 1] - cells[1]

(* one command: returns [st, out]; out = [c, idx, err, skip, coord, done, valid] with -9 / <<>> for "not applicable" *)
NA == -9
IOut(c, idx, err, skip, coord, done, valid) ==
    [c |-> c, idx |-> idx, err |-> err, skip |-> skip, coord |-> coord, done |-> done, valid |-> valid]

Advance(st, n) ==
    IF st.rev THEN [st EXCEPT !.pos = st.pos - 1, !.done = st.pos - 1 < 0]
    ELSE [st EXCEPT !.pos = st.pos + 1, !.done = st.pos + 1 >= n]

RECURSIVE Seek(_, _, _, _, _)
(* advance until a position with mask value `want`; returns [st, idx, count, found] *)
Seek(st, cells, mask, want, count) ==
    IF st.done THEN [st |-> st, idx |-> -1, count |-> count, found |-> FALSE]
    ELSE LET hit == mask[st.pos + 1] = want
             nst == Advance(st, Len(cells))
         IN IF hit THEN [st |-> nst, idx |-> Off(cells, st.pos), count |-> count + 1, found |-> TRUE]
            ELSE Seek(nst, cells, mask, want, count + 1)

IterStep(st, cmd, shape, cells, mask) ==
    LET n == Len(cells)
    IN CASE cmd = "Next" ->
              IF st.done THEN [st |-> st, out |-> IOut(cmd, -1, 1, NA, <<>>, NA, NA)]
              ELSE [st |-> Advance(st, n), out |-> IOut(cmd, Off(cells, st.pos), 0, NA, <<>>, NA, NA)]
         [] cmd = "NextValidity" ->
              IF st.done THEN [st |-> st, out |-> IOut(cmd, -1, 1, NA, <<>>, NA, NA)]
              ELSE [st |-> Advance(st, n),
                    out |-> IOut(cmd, Off(cells, st.pos), 0, NA, <<>>, NA,
                                IF mask = <<>> THEN 1 ELSE (IF mask[st.pos + 1] THEN 0 ELSE 1))]
         [] cmd \in {"NextValid", "NextInvalid"} ->
              LET s == Seek(st, cells, mask, cmd = "NextInvalid", 0)
                  sg == IF st.rev THEN -1 ELSE 1
              IN [st |-> s.st, out |-> IOut(cmd, s.idx, IF s.found THEN 0 ELSE 1, sg * s.count, <<>>, NA, NA)]
         [] cmd = "Reset" -> [st |-> IterReset(st, n), out |-> IOut(cmd, NA, 0, NA, <<>>, NA, NA)]
         [] cmd = "Rev"   -> [st |-> IterReset([st EXCEPT !.rev = TRUE], n), out |-> IOut(cmd, NA, 0, NA, <<>>, NA, NA)]
         [] cmd = "Fwd"   -> [st |-> IterReset([st EXCEPT !.rev = FALSE], n), out |-> IOut(cmd, NA, 0, NA, <<>>, NA, NA)]
         [] cmd = "Start" -> LET r == IterReset(st, n)
                             IN [st |-> Advance(r, n), out |-> IOut(cmd, Off(cells, r.pos), 0, NA, <<>>, NA, NA)]
         [] cmd = "Coord" -> [st |-> st, out |-> IOut(cmd, NA, 0, NA,
                                                   IF st.done THEN <<>> ELSE CoordOf(st.pos, shape), NA, NA)]
         [] cmd = "Done"  -> [st |-> st, out |-> IOut(cmd, NA, 0, NA, <<>>, IF st.done THEN 1 ELSE 0, NA)]

RECURSIVE IterRun(_, _, _, _, _, _)
IterRun(st, script, shape, cells, mask, acc) ==
    IF script = <<>> THEN acc
    ELSE LET r == IterStep(st, Head(script), shape, cells, mask)
         IN IterRun(r.st, Tail(script), shape, cells, mask, Append(acc, r.out))

Rep(cmd, k) == [i \in 1..k |-> cmd]
(* the call programs of the statement *)
Scripts(n) ==
    {<<"Coord", "Done">> \o Rep("Next", n) \o <<"Done", "Next">>,                                    \* full forward
     <<"Rev", "Coord">> \o Rep("Next", n) \o <<"Done", "Next">>,                                     \* full reverse
     <<"Start", "Coord">> \o Rep("Next", n) \o <<"Done">>}                                           \* Start
    \cup {Rep("Next", k) \o <<"Coord", "Reset", "Coord">> \o Rep("Next", n) \o <<"Next">> : k \in 0..n}          \* reset after k
    \cup {Rep("Next", k) \o <<"Rev", "Coord">> \o Rep("Next", n) \o <<"Next", "Fwd">> \o Rep("Next", n) \o <<"Next">> : k \in 0..n}  \* direction switch after k
    \cup {<<"Rev">> \o Rep("Next", k) \o <<"Coord", "Fwd", "Coord">> \o Rep("Next", n + 1) : k \in 0..n}
=============================================================================
