------------------------------ MODULE Layouts ------------------------------
(***************************************************************************)
(* Operand layouts.  A recipe is a short program that builds, from fresh   *)
(* backing storage, a tensor of a GIVEN logical shape s in a given memory  *)
(* layout.  The operation families (elementwise, reductions, products,     *)
(* assembly, serialisation, masks) take each operand through every recipe  *)
(* independently; by the properties the result may depend only on the      *)
(* logical contents, which is what the Level-1 definitions compute.        *)
(*                                                                         *)
(*   "C"     contiguous row-major                                          *)
(*   "F"     column-major declared over the raw backing                    *)
(*   "T"     lazily transposed (default reversal of a reversed base)       *)
(*   "Tp"    lazily transposed by a cyclic permutation                     *)
(*   "Row"   a contiguous window: leading-axis range of a longer base      *)
(*   "Col"   inner slice: trailing-axis range of a wider base              *)
(*   "Step"  step-2 slice of the trailing axis                             *)
(*   "Mat"   a materialised inner slice (fresh, contiguous)                *)
(*   "FT"    lazily transposed column-major                                *)
(*   "FCol"  inner slice of a column-major base                            *)
(*   "ColT"  inner slice, then lazily transposed (a non-contiguous view    *)
(*           with a pending transposition)                                 *)
(*   "StepT" step-2 slice, then lazily transposed                          *)
(*   "TCol"  lazily transposed, then inner slice (a view of a tensor with  *)
(*           a pending transposition)                                      *)
(*   "TClone" the clone of a lazily transposed tensor (it keeps the pending *)
(*           transposition but not the axes)                               *)
(*   "TView" the full view (all-nil slice) of a lazily transposed tensor   *)
(* Destination-only recipes (a tensor of the same SIZE but another shape,   *)
(* which the library re-lays-out when it is given as reuse tensor):         *)
(*   "Crev"  contiguous, shape reversed                                    *)
(*   "Tpend" shape s as constructed, then lazily transposed (its logical   *)
(*           shape is the reversal of s)                                   *)
(***************************************************************************)
EXTENDS Tensor

Rev(s) == [i \in 1..Len(s) |-> s[Len(s) + 1 - i]]
Cyc(r) == [i \in 1..r |-> i % r]            \* the permutation (1,2,...,r-1,0)
Nils(n) == [i \in 1..n |-> SlNil]

LayoutOK(kind, s) ==
    LET r == Len(s)
    IN CASE kind \in {"C", "F", "Fconv"} -> TRUE
         [] kind \in {"T", "FT", "TClone", "TView"}  -> r >= 2 /\ Prod(s) > 1
         [] kind = "Tp"   -> r >= 3 /\ Prod(s) > 1
         [] kind = "Row"  -> r >= 1 /\ s[1] >= 2
         [] kind \in {"Col", "Step", "Mat", "FCol"} -> r >= 1 /\ s[r] >= 2
         [] kind \in {"ColT", "StepT"} -> r >= 2 /\ s[1] >= 2
         [] kind = "TCol" -> r >= 2 /\ s[r] >= 2
         [] kind \in {"Crev", "Tpend"} -> r >= 2 /\ Rev(s) # s
         [] OTHER -> FALSE

(* returns [ops, h, n]: the program, the handle of the operand, the number of handles it creates;
   nh is the next free handle *)
Recipe(kind, s, nh, et) ==
    LET r == Len(s)
    IN CASE kind = "C"  -> [ops |-> <<Op("New", 0, <<s, "C", et>>)>>, h |-> nh, n |-> 1]
         [] kind = "F"  -> [ops |-> <<Op("New", 0, <<s, "F", et>>)>>, h |-> nh, n |-> 1]
         [] kind = "Fconv" -> [ops |-> <<Op("New", 0, <<s, "Fconv", et>>)>>, h |-> nh, n |-> 1]
         [] kind = "T"  -> [ops |-> <<Op("New", 0, <<Rev(s), "C", et>>), Op("T", nh, <<>>)>>, h |-> nh, n |-> 1]
         [] kind = "FT" -> [ops |-> <<Op("New", 0, <<Rev(s), "F", et>>), Op("T", nh, <<>>)>>, h |-> nh, n |-> 1]
         [] kind = "Tp" -> LET p == Cyc(r) inv == InvPerm(p)
                               base == [a \in 1..r |-> s[inv[a] + 1]]
                           IN [ops |-> <<Op("New", 0, <<base, "C", et>>), Op("T", nh, p)>>, h |-> nh, n |-> 1]
         [] kind = "Row" -> [ops |-> <<Op("New", 0, <<[s EXCEPT ![1] = @ + 1], "C", et>>),
                                       Op("Slice", nh, <<SlRng(1, s[1] + 1, 1)>>)>>, h |-> nh + 1, n |-> 2]
         [] kind = "Col" -> [ops |-> <<Op("New", 0, <<[s EXCEPT ![r] = @ + 1], "C", et>>),
                                       Op("Slice", nh, Nils(r - 1) \o <<SlRng(0, s[r], 1)>>)>>, h |-> nh + 1, n |-> 2]
         [] kind = "FCol" -> [ops |-> <<Op("New", 0, <<[s EXCEPT ![r] = @ + 1], "F", et>>),
                                        Op("Slice", nh, Nils(r - 1) \o <<SlRng(0, s[r], 1)>>)>>, h |-> nh + 1, n |-> 2]
         [] kind = "Step" -> [ops |-> <<Op("New", 0, <<[s EXCEPT ![r] = 2 * @], "C", et>>),
                                        Op("Slice", nh, Nils(r - 1) \o <<SlRng(0, 2 * s[r], 2)>>)>>, h |-> nh + 1, n |-> 2]
         [] kind = "ColT" -> LET q == Rev(s)
                             IN [ops |-> <<Op("New", 0, <<[q EXCEPT ![r] = @ + 1], "C", et>>),
                                           Op("Slice", nh, Nils(r - 1) \o <<SlRng(0, q[r], 1)>>),
                                           Op("T", nh + 1, <<>>)>>, h |-> nh + 1, n |-> 2]
         [] kind = "StepT" -> LET q == Rev(s)
                              IN [ops |-> <<Op("New", 0, <<[q EXCEPT ![r] = 2 * @], "C", et>>),
                                            Op("Slice", nh, Nils(r - 1) \o <<SlRng(0, 2 * q[r], 2)>>),
                                            Op("T", nh + 1, <<>>)>>, h |-> nh + 1, n |-> 2]
         [] kind = "TCol" -> [ops |-> <<Op("New", 0, <<Rev([s EXCEPT ![r] = @ + 1]), "C", et>>),
                                        Op("T", nh, <<>>),
                                        Op("Slice", nh, Nils(r - 1) \o <<SlRng(0, s[r], 1)>>)>>, h |-> nh + 1, n |-> 2]
         [] kind = "TClone" -> [ops |-> <<Op("New", 0, <<Rev(s), "C", et>>), Op("T", nh, <<>>), Op("Clone", nh, <<>>)>>, h |-> nh + 1, n |-> 2]
         [] kind = "TView" -> [ops |-> <<Op("New", 0, <<Rev(s), "C", et>>), Op("T", nh, <<>>), Op("Slice", nh, <<SlNil>>)>>, h |-> nh + 1, n |-> 2]
         [] kind = "Crev" -> [ops |-> <<Op("New", 0, <<Rev(s), "C", et>>)>>, h |-> nh, n |-> 1]
         [] kind = "Tpend" -> [ops |-> <<Op("New", 0, <<s, "C", et>>), Op("T", nh, <<>>)>>, h |-> nh, n |-> 1]
         [] kind = "Mat" -> [ops |-> <<Op("New", 0, <<[s EXCEPT ![r] = @ + 1], "C", et>>),
                                       Op("Slice", nh, Nils(r - 1) \o <<SlRng(0, s[r], 1)>>),
                                       Op("Materialize", nh + 1, <<>>)>>, h |-> nh + 2, n |-> 3]
=============================================================================
