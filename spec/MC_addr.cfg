SPECIFICATION Spec
CONSTANTS
  MaxRank = 3
  MaxDim = 3
  MaxDim4 = 2
  Ctors = {"C", "F", "Fconv"}
  Rich = FALSE
INVARIANTS TypeOK CopiesDisjoint TableBijective Emit
CHECK_DEADLOCK FALSE
