------------------------------ MODULE MC_addr ------------------------------
(***************************************************************************)
(* C01: coordinate addressing.  Every shape of rank 0..MaxRank x every     *)
(* constructor x layout (as built / one or two slices and transpositions), and   *)
(* for each such tensor the COMPLETE table  coordinate -> cell  over the   *)
(* box [-2, dim+1] per axis, plus wrong-arity coordinates.                 *)
(***************************************************************************)
EXTENDS Tensor, Gen, Json

CONSTANTS MaxRank, MaxDim, MaxDim4, Ctors, Rich, Deep   \* Deep: only the layouts three or more steps from construction

Shapes == UNION {ShapesOfRank(r, IF r >= 4 THEN MaxDim4 ELSE MaxDim) : r \in 0..MaxRank}

(* the table: entry k (row-major over the box) is the cell the coordinate denotes, 0 when it must be rejected *)
BoxTable(t) ==
    LET box == [i \in 1..Len(t.shape) |-> t.shape[i] + 4]
    IN [k \in 1..Prod(box) |->
          LET c == [i \in 1..Len(box) |-> CoordOf(k - 1, box)[i] - 2]
          IN IF InBox(c, t.shape) THEN t.cells[RankOf(c, t.shape) + 1] ELSE 0]

ArityCoords(t) ==
    LET r == Len(t.shape)
    IN {[i \in 1..(r + 1) |-> 0]} \cup (IF r >= 1 THEN {[i \in 1..(r - 1) |-> 0]} ELSE {})
       \cup (IF r >= 1 THEN {[i \in 1..(r + 2) |-> 0]} ELSE {})

AtBoxT(S, h) ==
    Out(S, Res("ok", FALSE, 0, <<>>, [table |-> BoxTable(S.live[h]), arity |-> ArityCoords(S.live[h])]))

ApplyX(S, op) == IF op.k = "AtBox" THEN AtBoxT(S, op.h) ELSE Apply(S, op)

DoX(op) ==
    LET o == ApplyX(St, op)
    IN /\ heap' = o.S.heap /\ allocs' = o.S.allocs /\ live' = o.S.live
       /\ steps' = Append(steps, [op |-> op, res |-> o.res])

LastK == IF steps = <<>> THEN "" ELSE steps[Len(steps)].op.k

Pal(d) == IF Rich THEN AxisPalette(d) ELSE AxisPaletteSmall(d)

Next ==
    \/ /\ steps = <<>>
       /\ \E sh \in Shapes, c \in Ctors : DoX(Op("New", 0, <<sh, c>>))
    \/ /\ Len(steps) = 1
       /\ Len(live[1].shape) >= 1
       /\ steps[1].op.a[2] \in {"C", "F", "Fconv"}      \* (the option-order variants are addressed as built)
       /\ \/ \E sl \in SliceListsPrefix(live[1].shape, Pal) :
               /\ ~SliceBad(live[1].shape, sl) /\ ~SliceOpen(live[1].shape, sl)
               /\ DoX(Op("Slice", 1, sl))
          \/ \E p \in Perms(Len(live[1].shape)) : ~IsIdent(p) /\ DoX(Op("T", 1, p))
    \* layouts two steps away: a second transposition of the pending tensor (composition, undo, cycles), a
    \* transposition of a slice, a slice of a lazily transposed tensor
    \/ /\ Len(steps) = 2 /\ LastOK /\ LastK \in {"Slice", "T"} /\ steps[1].op.a[2] \in {"C", "F"}
       /\ Len(live[Len(live)].shape) \in 2..3
       /\ \/ \E p \in Perms(Len(live[Len(live)].shape)) : ~IsIdent(p) /\ DoX(Op("T", Len(live), p))
          \/ /\ LastK = "T"
             /\ \E sl \in SliceListsPrefix(live[1].shape, AxisPaletteSmall) :
                  /\ ~SliceBad(live[1].shape, sl) /\ ~SliceOpen(live[1].shape, sl)
                  /\ DoX(Op("Slice", 1, sl))
    \* three transpositions in a row of a column-major tensor, or of a sliced view (do; undo or redo; do again)
    \/ /\ Deep /\ Len(steps) \in {3, 4} /\ LastOK /\ LastK = "T" /\ steps[Len(steps) - 1].op.k = "T"
       /\ Cardinality({i \in 1..Len(steps) : steps[i].op.k = "T"}) = 2
       /\ (steps[1].op.a[2] = "F" \/ steps[2].op.k = "Slice")
       /\ Len(live[Len(live)].shape) \in 2..3
       /\ \E p \in Perms(Len(live[Len(live)].shape)) : ~IsIdent(p) /\ DoX(Op("T", Len(live), p))
    \/ /\ Deep /\ Len(steps) = 3 /\ LastOK /\ LastK = "T" /\ steps[2].op.k = "Slice" /\ steps[1].op.a[2] = "C"
       /\ Len(live[Len(live)].shape) \in 2..3
       /\ DoX(Op("T", Len(live), InvPerm(IF steps[3].op.a = <<>> THEN Reversal(Len(live[Len(live)].shape)) ELSE steps[3].op.a)))
    \/ /\ Len(steps) \in (IF Deep THEN {4, 5} ELSE {1, 2, 3})
       /\ LastK # "AtBox" /\ LastOK
       /\ DoX(Op("AtBox", Len(live), <<>>))

Spec == Init /\ [][Next]_vars

CaseRec == [fam |-> "addr", steps |-> steps, live |-> live, heap |-> heap, allocs |-> allocs]
Emit == IF LastK = "AtBox" THEN PrintT(<<"CASE", ToJson(CaseRec)>>) ELSE TRUE

(* design-level check of the oracle itself: the table is a bijection between the in-range
   coordinates and the tensor's cells *)
TableBijective ==
    \A h \in 1..Len(live) :
        LET tb == BoxTable(live[h])
        IN /\ {tb[k] : k \in 1..Len(tb)} \ {0} = Range(live[h].cells)
           /\ Cardinality({k \in 1..Len(tb) : tb[k] # 0}) = Len(live[h].cells)
=============================================================================
