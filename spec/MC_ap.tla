------------------------------- MODULE MC_ap -------------------------------
(***************************************************************************)
(* Refinement check Level 2 => Level 1 for the access-pattern arithmetic.  *)
(* The Level-1 machine (Tensor.tla) and the transcription of the code's    *)
(* stride arithmetic (AP.tla) execute the same behaviours                  *)
(*     New ; [T] ; Slice ; [T] ; [Slice]                                   *)
(* in lock step; `l2` holds the Level-2 tensor of every live handle.       *)
(* Refines: every handle's Level-2 shape and addressed positions equal the *)
(* Level-1 shape and cells, unless the handle carries a NAMED deviation.   *)
(* The emitted cases are ordinary Level-1 cases (replayed by the harness,  *)
(* every element compared) that additionally carry the Level-2 strides,    *)
(* which the replayer compares with Strides() of the real tensors and      *)
(* counts (agreement is reported, a difference is not a verdict: strides   *)
(* are not observable behaviour).                                          *)
(***************************************************************************)
EXTENDS Tensor, Gen, FlatIter, Json

CONSTANTS MinRank, MaxRank, MaxDim, MaxDimHi, FullRank, MaxStep, Ctors, Depth, WithT

VARIABLES l2,    \* Seq(Level-2 tensor), parallel to `live`
          dev    \* Seq(SUBSET STRING): named deviations each handle carries

vars2 == <<heap, allocs, live, steps, l2, dev>>

Shapes == UNION {ShapesOfRank(r, IF r > FullRank THEN MaxDimHi ELSE MaxDim) : r \in MinRank..MaxRank}
Full(d) == AxisSlicesFull(d, MaxStep)
PalS(d) == AxisPaletteSmall(d)
Args(shape) == IF Len(shape) <= FullRank THEN SliceListsPrefix(shape, Full) ELSE SliceListsOneFull(shape, PalS, Full)

NSlices == Cardinality({i \in 1..Len(steps) : steps[i].op.k = "Slice"})
NTs     == Cardinality({i \in 1..Len(steps) : steps[i].op.k = "T"})
LastK   == IF steps = <<>> THEN "" ELSE steps[Len(steps)].op.k
Target  == Len(live)

(* the circumstances in which the code is known to deviate from Level 1 (each is a listed finding) *)
SliceDevs(t, sls) ==
    LET p == PadSlices(sls, Len(t.sh))
        d == Details(p[1], t.sh[1])
    (* (end-start)/step rounds down on the code's axis 0; below one full step the "fix" n <= 0 -> 1 hides it *)
    IN IF Len(t.sh) >= 1 /\ d.st > 1 /\ (d.e - d.s) % d.st > 0 /\ d.e - d.s > d.st THEN {"lead-axis-floor"} ELSE {}     \* KF-C02-1

DoNew(sh, c) ==
    /\ Do(Op("New", 0, <<sh, c>>))
    /\ LET start == Len(heap) + 1
           t == L2New(sh, IF c = "C" THEN "C" ELSE "F")
       IN l2' = Append(l2, L2(t.sh, t.st, start, start + Prod(sh)))
    /\ dev' = Append(dev, {})

DoSlice(h, sls) ==
    /\ Do(Op("Slice", h, sls))
    /\ LET ok == Apply(St, Op("Slice", h, sls)).res.st = "ok"
       IN IF ok THEN /\ l2' = Append(l2, L2Slice(l2[h], sls))
                     /\ dev' = Append(dev, dev[h] \cup SliceDevs(l2[h], sls))
          ELSE UNCHANGED <<l2, dev>>

DoT(h, p) ==
    /\ Do(Op("T", h, p))
    /\ l2' = [l2 EXCEPT ![h] = L2T(@, p)]
    /\ UNCHANGED dev

Init2 == Init /\ l2 = <<>> /\ dev = <<>>

Next2 ==
    \/ /\ steps = <<>>
       /\ \E sh \in Shapes, c \in Ctors : DoNew(sh, c)
    \/ /\ Len(steps) = 1 /\ WithT
       /\ \E p \in Perms(Len(live[1].shape)) : ~IsIdent(p) /\ DoT(1, p)
    \/ /\ Len(steps) >= 1 /\ LastOK /\ NSlices = 0
       /\ \E sl \in Args(live[Target].shape) : DoSlice(Target, sl)
    \* (a handle that carries a deviation is not followed further: the two levels no longer correspond)
    \/ /\ NSlices = 1 /\ LastOK /\ LastK = "Slice" /\ WithT /\ NTs = 0 /\ Len(live[Target].shape) >= 2 /\ dev[Target] = {}
       /\ \E p \in Perms(Len(live[Target].shape)) : ~IsIdent(p) /\ DoT(Target, p)
    \/ /\ NSlices >= 1 /\ NSlices < Depth /\ LastOK /\ Len(live[Target].shape) >= 1 /\ dev[Target] = {}
       /\ \E sl \in SliceListsPrefix(live[Target].shape, PalS) :
            /\ ~SliceBad(live[Target].shape, sl) /\ ~SliceOpen(live[Target].shape, sl)
            /\ DoSlice(Target, sl)

Spec == Init2 /\ [][Next2]_vars2

(***************************************************************************)
(* The refinement: Level 2 addresses exactly the Level-1 cells.            *)
(***************************************************************************)
(* one-element results: the statement lets axes of length one vanish, and the code decides by the size of the
   storage WINDOW (a one-element view of a stepped range keeps a wider window and therefore its rank) *)
Agrees(h) == /\ \/ live[h].shape = l2[h].sh
                \/ Prod(live[h].shape) = 1 /\ Prod(l2[h].sh) = 1
             /\ live[h].cells = L2Cells(l2[h])
Refines == \A h \in 1..Len(live) : dev[h] = {} => Agrees(h)

(* and rejects exactly what Level 1 rejects (where Level 1 has an opinion) *)
RejectsAlike ==
    steps # <<>> /\ LastK = "Slice" =>
        LET s == steps[Len(steps)]
            pre == l2[s.op.h]
        IN /\ s.res.st = "err" => SliceErr(pre, s.op.a)
           /\ s.res.st = "ok"  => ~SliceErr(pre, s.op.a)

(* the window the view's array header spans contains every element the view addresses *)
WindowHolds == \A h \in 1..Len(live) : dev[h] = {} => InWindow(l2[h]) /\ Distinct(l2[h])

(* the transcribed flat iterator (FlatIter.tla) walks every such tensor in the Level-1 order, both ways *)
IterRefines == \A h \in 1..Len(live) : dev[h] = {} => IterFwdOK(l2[h]) /\ IterRevOK(l2[h])

(* the named deviation is real: with the floor on the leading axis Level 2 has FEWER entries than Level 1 *)
DeviationIsReal == \A h \in 1..Len(live) : "lead-axis-floor" \in dev[h] /\ live[h].view /\ steps[Len(steps)].op.k = "Slice" /\ h = Len(live)
                        /\ dev[steps[Len(steps)].op.h] = {} => ~Agrees(h)

CaseRec == [fam |-> "ap", steps |-> steps, live |-> live, heap |-> heap, allocs |-> allocs,
            l2 |-> [h \in 1..Len(l2) |-> [sh |-> l2[h].sh, st |-> l2[h].st, dev |-> dev[h] # {}]]]
Emit == IF LastK \in {"Slice", "T"} /\ LastOK THEN PrintT(<<"CASE", ToJson(CaseRec)>>) ELSE TRUE
=============================================================================
