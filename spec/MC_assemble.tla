---------------------------- MODULE MC_assemble ----------------------------
(***************************************************************************)
(* C10: concatenation, stacking, repetition.  1..MaxOps operands x shapes  *)
(* x every axis (valid and one past) x an independent layout per operand   *)
(* x uniform and per-element repeat counts including zero.                 *)
(***************************************************************************)
EXTENDS Layouts, Gen, Json

CONSTANTS MinRank, MaxRank, MaxDim, MaxDimHi, HiRank, Lays, MaxOps, Kinds, RepCounts

Shapes == UNION {ShapesOfRank(r, IF r >= HiRank THEN MaxDimHi ELSE MaxDim) : r \in MinRank..MaxRank}

RECURSIVE Recipes(_, _, _)
(* programs building operands of shapes shs with layouts ls; returns [ops, hs, n] *)
Recipes(shs, ls, nh) ==
    IF shs = <<>> THEN [ops |-> <<>>, hs |-> <<>>, n |-> 0]
    ELSE LET r == Recipe(Head(ls), Head(shs), nh, "")
             rest == Recipes(Tail(shs), Tail(ls), nh + r.n)
         IN [ops |-> r.ops \o rest.ops, hs |-> <<r.h>> \o rest.hs, n |-> r.n + rest.n]

(* operand shape lists for concatenation along ax: same shape except on ax, where extents vary *)
ConcatShapes(s, ax, n) ==
    IF n = 1 THEN {<<s>>}
    ELSE {<<s>> \o [i \in 1..(n - 1) |-> [s EXCEPT ![ax] = e[i]]] : e \in [1..(n - 1) -> 1..2]}

Next ==
    /\ steps = <<>>
    /\ \/ /\ "Concat" \in Kinds
          /\ \E s \in Shapes, n \in 1..MaxOps : \E ax \in 1..(Len(s) + 1) :
               \E shs \in (IF ax <= Len(s) THEN ConcatShapes(s, ax, n) ELSE {[i \in 1..n |-> s]}) :
                 \E ls \in [1..n -> Lays] :
                    /\ \A i \in 1..n : LayoutOK(ls[i], shs[i])
                    /\ n >= 2        \* a single operand may be returned as is
                    /\ LET r == Recipes(shs, ls, 1) IN DoAll(r.ops \o <<Op("Concat", r.hs[1], <<ax - 1, r.hs>>)>>)
       \/ /\ "ConcatMismatch" \in Kinds
          /\ \E s \in Shapes, s2 \in Shapes : \E ax \in 1..Len(s) :
               /\ Len(s) = Len(s2) /\ \E d \in 1..Len(s) : d # ax /\ s[d] # s2[d]
               /\ LET r == Recipes(<<s, s2>>, <<"C", "C">>, 1) IN DoAll(r.ops \o <<Op("Concat", r.hs[1], <<ax - 1, r.hs>>)>>)
       \/ /\ "Stack" \in Kinds
          /\ \E s \in Shapes, n \in 1..MaxOps : \E ax \in 1..(Len(s) + 2) :
               \E ls \in [1..n -> Lays] :
                    /\ \A i \in 1..n : LayoutOK(ls[i], s)
                    /\ n >= 2
                    /\ LET r == Recipes([i \in 1..n |-> s], ls, 1) IN DoAll(r.ops \o <<Op("Stack", r.hs[1], <<ax - 1, r.hs>>)>>)
       \/ /\ "Repeat" \in Kinds
          /\ \E s \in Shapes, la \in Lays : \E axis \in (-1)..(Len(s) - 1) :
               /\ LayoutOK(la, s)
               /\ LET n == IF axis = -1 THEN Prod(s) ELSE s[axis + 1]
                      r == Recipe(la, s, 1, "")
                  IN \E reps \in {<<c>> : c \in RepCounts} \cup (IF n <= 3 THEN [1..n -> RepCounts] ELSE {}) \cup {[i \in 1..(n + 1) |-> 1]} :
                        DoAll(r.ops \o <<Op("Repeat", r.h, <<axis, reps, "safe", 0>>)>>)

Spec == Init /\ [][Next]_vars
CaseRec == [fam |-> "assemble", steps |-> steps, live |-> live, heap |-> heap, allocs |-> allocs]
Emit == IF steps # <<>> THEN PrintT(<<"CASE", ToJson(CaseRec)>>) ELSE TRUE

(* design-level: an assembled tensor holds exactly copies of operand elements (terms of the operands' cells) *)
OperandsIntact ==
    steps # <<>> =>
        \A h \in 1..Len(live) : allocs[live[h].al].kind = "b" =>
            \A k \in 1..Len(live[h].cells) : heap[live[h].cells[k]] = Cell(live[h].cells[k])
=============================================================================
