------------------------------ MODULE MC_copy ------------------------------
(***************************************************************************)
(* Copy between tensors of any two layouts (C16: mixed data orders).       *)
(***************************************************************************)
EXTENDS Layouts, Gen, Json
CONSTANTS MinRank, MaxRank, MaxDim, MaxDimHi, HiRank, Lays
Shapes == UNION {ShapesOfRank(r, IF r >= HiRank THEN MaxDimHi ELSE MaxDim) : r \in MinRank..MaxRank}
Next ==
    /\ steps = <<>>
    /\ \E s \in Shapes, la \in Lays, lb \in Lays :
         /\ LayoutOK(la, s) /\ LayoutOK(lb, s)
         /\ LET ra == Recipe(la, s, 1, "") rb == Recipe(lb, s, 1 + ra.n, "")
            IN DoAll(ra.ops \o rb.ops \o <<Op("Copy", ra.h, <<rb.h>>)>>)
Spec == Init /\ [][Next]_vars
CaseRec == [fam |-> "copy", steps |-> steps, live |-> live, heap |-> heap, allocs |-> allocs]
Emit == IF steps # <<>> THEN PrintT(<<"CASE", ToJson(CaseRec)>>) ELSE TRUE
=============================================================================
