------------------------------ MODULE MC_elem ------------------------------
(***************************************************************************)
(* C06, C07, C11, C12 (and, re-parameterised, C15-C17, C20): elementwise    *)
(* operations.  One step of the specification builds the operands (each in *)
(* its own layout), an optional destination, and performs the operation.   *)
(* The operator is the placeholder "OP": the structure (which elements are *)
(* combined, in which operand order, where the result is stored, which     *)
(* tensor is returned) does not depend on it, and the replayer substitutes *)
(* every operator and element type in turn.                                *)
(***************************************************************************)
EXTENDS Layouts, Gen, Json

CONSTANTS MinRank, MaxRank, MaxDim, MaxDimHi, HiRank,
          Kinds,      \* subset of {"Arith", "Cmp", "Unary"}
          Forms,      \* subset of {"TT", "TS", "ST"}
          LayA, LayB, \* layouts of the operands
          Modes,      \* subset of {"safe","unsafe","reuse","incr","reuseA","reuseB"}
          LayD,       \* layouts of a reuse / incr destination
          ShapeMismatch,
          Chain,      \* BOOLEAN: safe arithmetic results are fed to a second call
          ScalarTensors \* BOOLEAN: the scalar operand as a rank-0 tensor

Shapes == UNION {ShapesOfRank(r, IF r >= HiRank THEN MaxDimHi ELSE MaxDim) : r \in MinRank..MaxRank}

(* the program for one structure *)
Program(kind, s, form, la, lb, mode, ld, same) ==
    LET ra == Recipe(la, s, 1, "")
        hasB == form = "TT" /\ kind # "Unary"
        rb == IF hasB THEN Recipe(lb, s, 1 + ra.n, "") ELSE [ops |-> <<>>, h |-> 1, n |-> 0]
        nd == 1 + ra.n + rb.n
        needD == mode \in {"reuse", "incr"}
        det == IF kind = "Cmp" /\ same = 0 /\ mode = "reuse" THEN "bool" ELSE ""
        rd == IF needD THEN Recipe(ld, s, nd, det) ELSE [ops |-> <<>>, h |-> 0, n |-> 0]
        d  == CASE mode = "reuseA" -> ra.h [] mode = "reuseB" -> rb.h [] OTHER -> rd.h
        m  == IF mode \in {"reuseA", "reuseB"} THEN "reuse" ELSE mode
        b  == IF hasB THEN rb.h ELSE 1          \* for TS / ST: the index of the scalar constant
        call == CASE kind = "Arith" -> Op("Arith", ra.h, <<"OP", form, b, m, d>>)
                  [] kind = "Cmp"   -> Op("Cmp", ra.h, <<"OP", form, b, m, d, same>>)
                  [] kind = "Unary" -> Op("Unary", ra.h, <<"OP", m, d, 1, 2>>)
        (* a safe call returns a fresh tensor (handle nd + rd.n); fed to a second call together with a new contiguous
           tensor it must behave as the array it is - whatever layout bookkeeping the library gave it *)
        resH == nd + rd.n
        chain == IF mode = "safe" /\ kind = "Arith" /\ Chain
                 THEN <<Op("New", 0, <<s, "C", "">>), Op("Arith", resH, <<"OP", "TT", resH + 1, "safe", 0>>)>>
                 ELSE <<>>
    IN ra.ops \o rb.ops \o rd.ops \o <<call>> \o chain

Next ==
    /\ steps = <<>>
    /\ \E kind \in Kinds \ {"FMA"}, s \in Shapes, form \in Forms, la \in LayA, lb \in LayB, mode \in Modes, ld \in LayD, same \in {0, 1} :
         /\ LayoutOK(la, s)
         /\ (form = "TT" /\ kind # "Unary") => LayoutOK(lb, s)
         /\ ~(form = "TT" /\ kind # "Unary") => lb = CHOOSE x \in LayB : TRUE      \* no second tensor: one representative
         /\ kind = "Unary" => form = CHOOSE x \in Forms : TRUE
         /\ mode \in {"reuse", "incr"} => LayoutOK(ld, s)
         /\ mode \notin {"reuse", "incr"} => ld = CHOOSE x \in LayD : TRUE
         /\ mode = "reuseB" => (form = "TT" /\ kind # "Unary")
         /\ kind # "Cmp" => same = 0
         /\ (kind = "Cmp" /\ mode \in {"unsafe", "incr"}) => same = 1
         /\ ~(kind = "Cmp" /\ mode = "incr")
         (* a comparison into an operand can only be same-type (the operand is not a bool tensor) *)
         /\ (kind = "Cmp" /\ mode \in {"reuseA", "reuseB"}) => same = 1
         /\ DoAll(Program(kind, s, form, la, lb, mode, ld, same))

(* the scalar operand handed over as a rank-0 tensor (package functions): it is an operand like any other and must
   come out unchanged; the tensor operand in every layout, the scalar on either side *)
NextScalarTensor ==
    /\ steps = <<>> /\ ScalarTensors
    /\ \E kind \in Kinds \ {"Unary", "FMA"}, s \in Shapes, la \in LayA, form \in {"TZ", "ZT"}, same \in {0, 1} :
         /\ LayoutOK(la, s) /\ Len(s) >= 1 /\ Prod(s) > 1
         /\ (kind # "Cmp" => same = 0)
         /\ LET ra == Recipe(la, s, 1, "")
                z == 1 + ra.n
            IN DoAll(ra.ops \o <<Op("New", 0, <<<<>>, "C", "">>),
                                  IF kind = "Arith" THEN Op("Arith", ra.h, <<"OP", form, z, "safe", 0>>)
                                  ELSE Op("Cmp", ra.h, <<"OP", form, z, "safe", 0, same>>),
                                  \* and once more with the same scalar tensor: it still holds its value
                                  IF kind = "Arith" THEN Op("Arith", ra.h, <<"OP", form, z, "safe", 0>>)
                                  ELSE Op("Cmp", ra.h, <<"OP", form, z, "safe", 0, same>>)>>)

(* mismatched shapes must be refused *)
NextMismatch ==
    /\ steps = <<>> /\ ShapeMismatch
    /\ \E kind \in Kinds \ {"Unary"}, s \in Shapes, s2 \in Shapes :
         (* one-element tensors of rank >= 1 are tensors, not scalars: against a different shape they are a mismatch too *)
         /\ s # s2 /\ Len(s) >= 1 /\ Len(s2) >= 1 /\ (Prod(s) > 1 \/ Prod(s2) > 1)
         (* the library documents a soft equality of the vector shapes (n), (n,1), (1,n): not a mismatch *)
         /\ (Prod(s) # Prod(s2) \/ Cardinality({i \in 1..Len(s) : s[i] > 1}) > 1 \/ Cardinality({i \in 1..Len(s2) : s2[i] > 1}) > 1)
         /\ DoAll(<<Op("New", 0, <<s, "C", "">>), Op("New", 0, <<s2, "C", "">>),
                    IF kind = "Arith" THEN Op("Arith", 1, <<"OP", "TT", 2, "safe", 0>>)
                    ELSE Op("Cmp", 1, <<"OP", "TT", 2, "safe", 0, 0>>)>>)

(* fused multiply-add (C20): Y := A * X + Y with X a tensor or a scalar *)
NextFMA ==
    /\ steps = <<>> /\ "FMA" \in Kinds
    /\ \E s \in Shapes, la \in LayA, lb \in LayB, ld \in LayD, form \in {"T", "S"} :
         /\ LayoutOK(la, s) /\ LayoutOK(ld, s) /\ (form = "T" => LayoutOK(lb, s))
         /\ form = "S" => lb = CHOOSE x \in LayB : TRUE
         /\ LET ra == Recipe(la, s, 1, "")
                rb == IF form = "T" THEN Recipe(lb, s, 1 + ra.n, "") ELSE [ops |-> <<>>, h |-> 1, n |-> 0]
                rd == Recipe(ld, s, 1 + ra.n + rb.n, "")
            IN DoAll(ra.ops \o rb.ops \o rd.ops \o <<Op("FMA", ra.h, <<form, rb.h, rd.h>>)>>)

Spec == Init /\ [][Next \/ NextMismatch \/ NextFMA \/ NextScalarTensor]_vars

CaseRec == [fam |-> "elem", steps |-> steps, live |-> live, heap |-> heap, allocs |-> allocs]
Emit == IF steps # <<>> THEN PrintT(<<"CASE", ToJson(CaseRec)>>) ELSE TRUE

(* design-level statement of C07 on the specification: after the program, every tensor that is not
   the returned destination still holds its initial cell values (safe: all of them) *)
LastRes == steps[Len(steps)].res
OperandsIntact ==
    steps # <<>> /\ LastRes.st = "ok" =>
        \A h \in 1..Len(live) :
            (allocs[live[h].al].kind = "b" /\ h # LastRes.h /\ Range(live[h].cells) \cap (IF LastRes.h = 0 THEN {} ELSE Range(live[LastRes.h].cells)) = {})
               => \A k \in 1..Len(live[h].cells) : heap[live[h].cells[k]] = Cell(live[h].cells[k])
=============================================================================
