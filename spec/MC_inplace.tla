----------------------------- MODULE MC_inplace ------------------------------
(* Exhaustive check of InplaceT.tla against Level 1: one state per (shape, permutation). *)
EXTENDS InplaceT, Gen, TLC
CONSTANTS MaxRank, MaxDim, MaxDimHi, HiRank
VARIABLES sh, ax
Shapes == UNION {ShapesOfRank(r, IF r >= HiRank THEN MaxDimHi ELSE MaxDim) : r \in 2..MaxRank}
Init == sh = <<>> /\ ax = <<>>
Next == /\ sh = <<>> /\ \E s \in Shapes : \E p \in Perms(Len(s)) : sh' = s /\ ax' = p
Spec == Init /\ [][Next]_<<sh, ax>>
Refines == sh # <<>> => InplaceCorrect(sh, ax)
=============================================================================
