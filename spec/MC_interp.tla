----------------------------- MODULE MC_interp ------------------------------
(***************************************************************************)
(* C17: every element-type specialisation computes the same function.      *)
(* The structures of the generated operation families are enumerated with  *)
(* CONCRETE operators, and the specification itself evaluates every        *)
(* expected element over the integers (Interp.tla).  The replayer runs the *)
(* behaviour for every element type that can represent the operands and    *)
(* the results and demands exactly these numbers after conversion - so any *)
(* two element types agree, and each equals the one generic definition.    *)
(* Layouts are chosen so that every kernel variant is selected: vector-    *)
(* vector, vector-scalar, scalar-vector, incr, iterator, iterator-incr,    *)
(* same-type comparison.                                                   *)
(***************************************************************************)
EXTENDS Layouts, Interp, Gen, Json

CONSTANTS ShapeId, Lays, Family

Shapes == IF ShapeId = "q" THEN {<<3>>, <<2, 2>>} ELSE {<<>>, <<4>>, <<2, 3>>, <<2, 2, 2>>}
ArithOps == {"add", "sub", "mul", "div", "mod", "pow", "min", "max"}
CmpOps == {"lt", "gt", "lte", "gte", "eq", "ne"}
UnOps == {"neg", "square", "cube", "abs", "sign", "inv", "apply", "clamp"}
Modes == {"safe", "unsafe", "reuse", "incr"}

Prog(kind, f, s, form, la, lb, mode, same) ==
    LET ra == Recipe(la, s, 1, "")
        hasB == form = "TT" /\ kind # "Unary"
        rb == IF hasB THEN Recipe(lb, s, 1 + ra.n, "") ELSE [ops |-> <<>>, h |-> 1, n |-> 0]
        nd == 1 + ra.n + rb.n
        needD == mode \in {"reuse", "incr"}
        det == IF kind = "Cmp" /\ same = 0 /\ mode = "reuse" THEN "bool" ELSE ""
        rd == IF needD THEN Recipe("C", s, nd, det) ELSE [ops |-> <<>>, h |-> 0, n |-> 0]
        b  == IF hasB THEN rb.h ELSE 1
        call == CASE kind = "Arith" -> Op("Arith", ra.h, <<f, form, b, mode, rd.h>>)
                  [] kind = "Cmp"   -> Op("Cmp", ra.h, <<f, form, b, mode, rd.h, same>>)
                  [] kind = "Unary" -> Op("Unary", ra.h, <<f, mode, rd.h, 1, 2>>)
    IN ra.ops \o rb.ops \o rd.ops \o <<call>>

Next ==
    /\ steps = <<>>
    /\ \E s \in Shapes, la \in Lays :
         /\ LayoutOK(la, s)
         /\ CASE Family = "arith" ->
                   \E f \in ArithOps, form \in {"TT", "TS", "ST"}, lb \in Lays, mode \in Modes :
                      /\ LayoutOK(lb, s) /\ (form # "TT" => lb = "C")
                      /\ ~(f \in {"min", "max"} /\ mode = "incr")
                      /\ DoAll(Prog("Arith", f, s, form, la, lb, mode, 0))
              [] Family = "cmp" ->
                   \E f \in CmpOps, form \in {"TT", "TS", "ST"}, lb \in Lays, mode \in {"safe", "unsafe", "reuse"}, same \in {0, 1} :
                      /\ LayoutOK(lb, s) /\ (form # "TT" => lb = "C")
                      /\ (mode = "unsafe" => same = 1)
                      /\ DoAll(Prog("Cmp", f, s, form, la, lb, mode, same))
              [] Family = "unary" ->
                   \E f \in UnOps, mode \in Modes :
                      /\ ~(f = "apply" /\ mode = "incr")
                      /\ DoAll(Prog("Unary", f, s, "TS", la, "C", mode, 0))
              [] Family = "reduce4" ->       \* rank 4 with a middle axis longer than 2 (the block-stepping kernels)
                   /\ la = "C"
                   /\ \E s4 \in {<<2, 2, 3, 2>>, <<1, 2, 3, 2>>, <<2, 3, 2, 2>>} : \E f \in {"add", "max", "min"}, a \in 0..3 :
                         DoAll(<<Op("New", 0, <<s4, "C", "">>), Op("Reduce", 1, <<f, <<a>>>>)>>)
              [] Family = "reduce" ->
                   LET ra == Recipe(la, s, 1, "")
                   IN \/ \E f \in {"add", "max", "min"}, ax \in {<<>>} \cup {<<a>> : a \in 0..(Len(s) - 1)} \cup (IF Len(s) >= 2 THEN {<<1, 0>>} ELSE {}) :
                            DoAll(ra.ops \o <<Op("Reduce", ra.h, <<f, ax>>)>>)
                      \/ \E f \in {"max", "min"}, ax \in (-1)..(Len(s) - 1) :
                            DoAll(ra.ops \o <<Op("Arg", ra.h, <<f, ax>>)>>)
              [] OTHER -> FALSE

(* masked arg-reductions: the masked kernels are specialised per element type as well *)
MaskSet(n) == {[i \in 1..n |-> IF i = 1 THEN 1 ELSE 0], [i \in 1..n |-> IF i = n THEN 1 ELSE 0],
               [i \in 1..n |-> i % 2], [i \in 1..n |-> 0]}
NextMasked ==
    /\ steps = <<>> /\ Family = "maskedarg"
    /\ \E s \in Shapes \cup {<<5>>, <<3, 2>>} : Len(s) >= 1 /\ \E m \in MaskSet(Prod(s)), f \in {"max", "min"}, ax \in (-1)..(Len(s) - 1) :
          DoAll(<<Op("NewMasked", 0, <<s, m>>), Op("Arg", 1, <<f, ax>>)>>)

Spec == Init /\ [][Next \/ NextMasked]_vars

(* the integer interpretation of every live tensor *)
IExp == [h \in 1..Len(live) |-> [k \in 1..Len(live[h].cells) |-> IEval(heap[live[h].cells[k]])]]
CaseRec == [fam |-> "interp", steps |-> steps, live |-> live, heap |-> heap, allocs |-> allocs, iexp |-> IExp]
Emit == IF steps # <<>> THEN PrintT(<<"CASE", ToJson(CaseRec)>>) ELSE TRUE
=============================================================================
