------------------------------- MODULE MC_io -------------------------------
(***************************************************************************)
(* C14: serialisation round trips.  Formats x shapes of rank 0..MaxRank    *)
(* (scalars, length-one axes) x layouts x masked / unmasked.               *)
(***************************************************************************)
EXTENDS Layouts, Gen, Json

CONSTANTS MinRank, MaxRank, MaxDim, MaxDimHi, HiRank, Lays, Formats, WithMasks

Shapes == UNION {ShapesOfRank(r, IF r >= HiRank THEN MaxDimHi ELSE MaxDim) : r \in MinRank..MaxRank}

Next ==
    /\ steps = <<>>
    /\ \E s \in Shapes, f \in Formats :
         \/ \E la \in Lays : LayoutOK(la, s) /\
               LET r == Recipe(la, s, 1, "") IN DoAll(r.ops \o <<Op("RoundTrip", r.h, <<f>>)>>)
         \/ /\ WithMasks /\ Prod(s) <= 6
            /\ \E m \in [1..Prod(s) -> {0, 1}] :
                 \/ DoAll(<<Op("NewMasked", 0, <<s, m>>), Op("RoundTrip", 1, <<f>>)>>)
                 \/ Len(s) >= 2 /\ "F" \in Lays /\ DoAll(<<Op("NewMaskedF", 0, <<s, m>>), Op("RoundTrip", 1, <<f>>)>>)   \* masked and column-major

Spec == Init /\ [][Next]_vars
CaseRec == [fam |-> "io", steps |-> steps, live |-> live, heap |-> heap, allocs |-> allocs]
Emit == IF steps # <<>> THEN PrintT(<<"CASE", ToJson(CaseRec)>>) ELSE TRUE
=============================================================================
