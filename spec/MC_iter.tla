------------------------------ MODULE MC_iter ------------------------------
(***************************************************************************)
(* C05: iterators.  Every access pattern reachable from shapes of rank     *)
(* 0..MaxRank by <= ViewDepth slice/transpose steps (row- and column-major)*)
(* x the call programs {full forward, full reverse, Start, reset after     *)
(* each k, direction switch after each k}; multi-iterators over pairs and  *)
(* triples of equally shaped tensors with different strides.               *)
(***************************************************************************)
EXTENDS Layouts, Iter, Gen, Json

CONSTANTS MinRank, MaxRank, MaxDim, MaxDimHi, HiRank, Ctors, ViewDepth, Mode, Lays

Shapes == UNION {ShapesOfRank(r, IF r >= HiRank THEN MaxDimHi ELSE MaxDim) : r \in MinRank..MaxRank}
LastK == IF steps = <<>> THEN "" ELSE steps[Len(steps)].op.k
V == Len(live)
NViews == Cardinality({i \in 1..Len(steps) : steps[i].op.k \in {"Slice", "T"}})

IterT(S, h, script) ==
    LET t == S.live[h]
    IN [S |-> S, res |-> Res("ok", FALSE, 0, <<>>,
        [out |-> IterRun(IterInit(Len(t.cells)), script, t.shape, t.cells, <<>>, <<>>),
         cells |-> t.cells])]

(* multi-iterator: for each position the offsets of every tensor; forward only *)
MultT(S, hs) ==
    LET n == Len(S.live[hs[1]].cells)
    IN [S |-> S, res |-> Res("ok", TRUE, 0, <<>>,
          [offs |-> [k \in 1..n |-> [j \in 1..Len(hs) |-> Off(S.live[hs[j]].cells, k - 1)]]])]

ApplyX(S, op) == CASE op.k = "Iter" -> IterT(S, op.h, op.a)
                   [] op.k = "MultIter" -> MultT(S, op.a)
                   [] OTHER -> Apply(S, op)
DoX(op) ==
    LET o == ApplyX(St, op)
    IN /\ heap' = o.S.heap /\ allocs' = o.S.allocs /\ live' = o.S.live
       /\ steps' = Append(steps, [op |-> op, res |-> o.res])

RECURSIVE RunOpsX(_, _, _)
RunOpsX(S, ops, acc) ==
    IF ops = <<>> THEN [S |-> S, steps |-> acc]
    ELSE LET o == ApplyX(S, Head(ops))
         IN RunOpsX(o.S, Tail(ops), Append(acc, [op |-> Head(ops), res |-> o.res]))
DoAllX(ops) ==
    LET r == RunOpsX(St, ops, steps)
    IN /\ heap' = r.S.heap /\ allocs' = r.S.allocs /\ live' = r.S.live /\ steps' = r.steps

NextFlat ==
    \/ /\ steps = <<>>
       /\ \E sh \in Shapes, c \in Ctors : DoX(Op("New", 0, <<sh, c, "">>))
    \/ /\ Len(steps) >= 1 /\ NViews < ViewDepth /\ LastOK /\ LastK # "Iter" /\ Len(live[V].shape) >= 1
       /\ \/ \E sl \in SliceListsPrefix(live[V].shape, AxisPaletteSmall) :
               /\ ~SliceBad(live[V].shape, sl) /\ ~SliceOpen(live[V].shape, sl)
               /\ DoX(Op("Slice", V, sl))
          \/ \E p \in Perms(Len(live[V].shape)) : ~IsIdent(p) /\ DoX(Op("T", V, p))
    \/ /\ Len(steps) >= 1 /\ LastOK /\ LastK # "Iter"
       /\ \E sc \in Scripts(Len(live[V].cells)) : DoX(Op("Iter", V, sc))

NextMult ==
    /\ steps = <<>>
    /\ \E s \in Shapes, n \in 2..3 : \E ls \in [1..n -> Lays] :
         /\ \A i \in 1..n : LayoutOK(ls[i], s)
         /\ LET r1 == Recipe(ls[1], s, 1, "")
                r2 == Recipe(ls[2], s, 1 + r1.n, "")
                r3 == IF n = 3 THEN Recipe(ls[3], s, 1 + r1.n + r2.n, "") ELSE [ops |-> <<>>, h |-> 0, n |-> 0]
                hs == IF n = 3 THEN <<r1.h, r2.h, r3.h>> ELSE <<r1.h, r2.h>>
            IN DoAllX(r1.ops \o r2.ops \o r3.ops \o <<Op("MultIter", hs[1], hs)>>)

Next == IF Mode = "flat" THEN NextFlat ELSE NextMult
Spec == Init /\ [][Next]_vars

CaseRec == [fam |-> "iter", steps |-> steps, live |-> live, heap |-> heap, allocs |-> allocs]
Emit == IF LastK \in {"Iter", "MultIter"} THEN PrintT(<<"CASE", ToJson(CaseRec)>>) ELSE TRUE

(* design-level: a full forward run yields every position's offset exactly once, in order, then exhaustion;
   the reverse run yields exactly the reverse *)
ForwardVisitsAll ==
    \A h \in 1..Len(live) :
        LET t == live[h] n == Len(t.cells)
            f == IterRun(IterInit(n), Rep("Next", n + 1), t.shape, t.cells, <<>>, <<>>)
            b == IterRun(IterInit(n), <<"Rev">> \o Rep("Next", n + 1), t.shape, t.cells, <<>>, <<>>)
        IN /\ \A k \in 1..n : f[k].idx = Off(t.cells, k - 1) /\ f[k].err = 0
           /\ f[n + 1].err = 1
           /\ \A k \in 1..n : b[k + 1].idx = Off(t.cells, n - k)
           /\ b[n + 2].err = 1
           /\ Cardinality({f[k].idx : k \in 1..n}) = n
=============================================================================
