----------------------------- MODULE MC_linalg -----------------------------
(***************************************************************************)
(* C09: linear-algebra products.  Every operand shape combination with     *)
(* dims <= MaxDim: vector forms (n), (n,1), (1,n); matrices; rank-3        *)
(* operands with every valid contraction axis pair (and pairs of pairs)    *)
(* for the general contraction; the dispatching Dot; Trace.  Each operand  *)
(* in its own layout; modes safe / reuse / incr.                           *)
(***************************************************************************)
EXTENDS Layouts, Gen, Json

CONSTANTS MaxDim, MaxRankT, LayA, LayB, LayD, Modes, Kinds, Chain   \* Chain: the result of a matrix product is an operand of a second one

Dims == 1..MaxDim
VecForms(n) == {<<n>>, <<n, 1>>, <<1, n>>}
Shapes(rmin, rmax) == UNION {ShapesOfRank(r, MaxDim) : r \in rmin..rmax}

(* all ways to contract k axis pairs of shapes sa, sb *)
AxisPairs(sa, sb, k) ==
    {<<pa, pb>> \in ([1..k -> 0..(Len(sa) - 1)] \X [1..k -> 0..(Len(sb) - 1)]) :
        /\ \A i, j \in 1..k : i # j => pa[i] # pa[j] /\ pb[i] # pb[j]
        /\ \A i \in 1..k : sa[pa[i] + 1] = sb[pb[i] + 1]}

Program(kind, sa, sb, la, lb, ld, axA, axB, mode) ==
    LET ra == Recipe(la, sa, 1, "")
        rb == Recipe(lb, sb, 1 + ra.n, "")
        p  == ProductSpec([heap |-> [i \in 1..1 |-> <<"z">>], allocs |-> <<>>, live |-> <<[shape |-> sa, cells |-> [i \in 1..Prod(sa) |-> 1]], [shape |-> sb, cells |-> [i \in 1..Prod(sb) |-> 1]]>>],
                          kind, 1, 2, axA, axB)
        nd == 1 + ra.n + rb.n
        needD == mode \in {"reuse", "incr"}
        rd == IF needD THEN Recipe(ld, p.shape, nd, "") ELSE [ops |-> <<>>, h |-> 0, n |-> 0]   \* the destination has a layout of its own
        resH == IF needD THEN rd.h ELSE nd            \* the returned tensor: the destination, or a fresh one
        nextH == nd + rd.n + (IF needD THEN 0 ELSE 1)
        chain == IF Chain /\ Len(p.shape) = 2 /\ kind \in {"MatMul", "Outer"}
                 THEN <<Op("New", 0, <<<<p.shape[2]>>, "C", "">>), Op("Product", resH, <<"MatVecMul", nextH, <<>>, <<>>, "safe", 0>>)>>
                 ELSE <<>>
    IN ra.ops \o rb.ops \o rd.ops
         \o <<Op("Product", ra.h, <<kind, rb.h, axA, axB, mode, rd.h>>)>> \o chain

(* shape of the result, needed to build a destination: computed on dummy cells *)
ResultOK(kind, sa, sb, axA, axB) ==
    ProductSpec([heap |-> [i \in 1..1 |-> <<"z">>], allocs |-> <<>>,
                 live |-> <<[shape |-> sa, cells |-> [i \in 1..Prod(sa) |-> 1]], [shape |-> sb, cells |-> [i \in 1..Prod(sb) |-> 1]]>>],
                kind, 1, 2, axA, axB).ok

ResultShape(kind, sa, sb, axA, axB) ==
    ProductSpec([heap |-> [i \in 1..1 |-> <<"z">>], allocs |-> <<>>,
                 live |-> <<[shape |-> sa, cells |-> [i \in 1..Prod(sa) |-> 1]], [shape |-> sb, cells |-> [i \in 1..Prod(sb) |-> 1]]>>],
                kind, 1, 2, axA, axB).shape

OpKind(kind) == IF kind = "TensorMul4" THEN "TensorMul" ELSE kind      \* "TensorMul4" only selects the operand shapes

Combos(kind) ==
    CASE kind = "MatMul"    -> {<<<<m, k>>, <<k, n>>, <<>>, <<>>>> : m \in Dims, k \in Dims, n \in Dims}
      [] kind = "MatVecMul" -> UNION {{<<<<m, k>>, v, <<>>, <<>>>> : v \in VecForms(k)} : <<m, k>> \in Dims \X Dims}
      [] kind = "Inner"     -> UNION {{<<v, w, <<>>, <<>>>> : v \in VecForms(n), w \in VecForms(n)} : n \in Dims}
      [] kind = "Outer"     -> UNION {{<<v, w, <<>>, <<>>>> : v \in VecForms(m), w \in VecForms(n)} : <<m, n>> \in Dims \X Dims}
      [] kind = "TensorMul" -> UNION {UNION {{<<sa, sb, pr[1], pr[2]>> : pr \in AxisPairs(sa, sb, k)} : k \in 1..2} :
                                        <<sa, sb>> \in Shapes(2, MaxRankT) \X Shapes(2, MaxRankT)}
      (* general contraction with a rank-4 operand on either side (the other of rank 2-3) *)
      [] kind = "TensorMul4" -> UNION {UNION {{<<sa, sb, pr[1], pr[2]>> : pr \in AxisPairs(sa, sb, k)} : k \in 1..2} :
                                        <<sa, sb>> \in {ss \in Shapes(2, MaxRankT) \X Shapes(2, MaxRankT) :
                                                          (Len(ss[1]) = 4 /\ Len(ss[2]) <= 3) \/ (Len(ss[2]) = 4 /\ Len(ss[1]) <= 3)}}
      [] kind = "Dot"       -> {<<sa, sb, <<>>, <<>>>> : <<sa, sb>> \in
                                   {ss \in Shapes(1, MaxRankT) \X Shapes(1, MaxRankT) : Prod(ss[1]) > 1 /\ Prod(ss[2]) > 1}}

Next ==
    /\ steps = <<>>
    /\ \/ \E kind \in Kinds \ {"Trace"}, la \in LayA, lb \in LayB, ld \in LayD, mode \in Modes :
            \E c \in Combos(kind) :
               /\ LayoutOK(la, c[1]) /\ LayoutOK(lb, c[2])
               /\ ResultOK(OpKind(kind), c[1], c[2], c[3], c[4])
               /\ (kind = "Inner" => mode = "safe")
               /\ (mode \in {"reuse", "incr"} => LayoutOK(ld, ResultShape(OpKind(kind), c[1], c[2], c[3], c[4])))
               /\ (mode \notin {"reuse", "incr"} => ld = "C")
               /\ DoAll(Program(OpKind(kind), c[1], c[2], la, lb, ld, c[3], c[4], mode))
       \/ /\ "Trace" \in Kinds
          /\ \E s \in ShapesOfRank(2, MaxDim), la \in LayA :
               /\ LayoutOK(la, s)
               /\ LET ra == Recipe(la, s, 1, "") IN DoAll(ra.ops \o <<Op("Trace", ra.h, <<>>)>>)

Spec == Init /\ [][Next]_vars
CaseRec == [fam |-> "linalg", steps |-> steps, live |-> live, heap |-> heap, allocs |-> allocs]
Emit == IF steps # <<>> THEN PrintT(<<"CASE", ToJson(CaseRec)>>) ELSE TRUE
=============================================================================
