------------------------------ MODULE MC_mask ------------------------------
(***************************************************************************)
(* C15 (and the masked-iteration clause of C05): masks.                    *)
(*   "inspect"  every mask over the elements of the shapes in Shapes x     *)
(*              the inspection functions, Filled, soft/hard predicates     *)
(*   "iter"     every mask x valid/invalid/validity stepping programs      *)
(*   "pred"     every predicate x soft/hard x prior mask                   *)
(*   "through"  a mask through slicing, lazy and physical transposition,   *)
(*              materialisation and cloning                                *)
(*   "ops"      masked operands in elementwise operations                  *)
(*   "arg"      arg-reductions of masked tensors (flat and per axis)       *)
(***************************************************************************)
EXTENDS Layouts, Iter, Gen, Json

CONSTANTS ShapeSetId, Mode, MaxMask

(* TLC configuration files cannot hold tuples: the shape sets are named here *)
ShapeSet ==
    CASE ShapeSetId = "iter-q"    -> {<<>>, <<3>>, <<2, 2>>, <<2, 3>>, <<1, 4>>}
      [] ShapeSetId = "iter-t"    -> {<<>>, <<4>>, <<2, 2>>, <<2, 3>>, <<2, 4>>, <<2, 2, 2>>, <<1, 5>>, <<7, 1>>}
      [] ShapeSetId = "inspect-q" -> {<<>>, <<4>>, <<2, 3>>, <<2, 2, 2>>, <<1, 3>>}
      [] ShapeSetId = "inspect-t" -> {<<>>, <<5>>, <<10>>, <<2, 3>>, <<3, 3>>, <<2, 5>>, <<2, 2, 2>>, <<1, 4>>, <<3, 1>>, <<2, 1, 3>>}
      [] ShapeSetId = "other-q"   -> {<<>>, <<3>>, <<2, 2>>, <<2, 3>>}
      [] ShapeSetId = "other-t"   -> {<<>>, <<4>>, <<2, 2>>, <<2, 3>>, <<2, 2, 2>>}

Masks(n) == [1..n -> {0, 1}]
LastK == IF steps = <<>> THEN "" ELSE steps[Len(steps)].op.k
V == Len(live)
Preds == {"eq", "ne", "gt", "ge", "lt", "le", "inside", "outside"}

MIterT(S, h, script) ==
    LET t == S.live[h]
    IN [S |-> S, res |-> Res("ok", FALSE, 0, <<>>,
        [out |-> IterRun(IterInit(Len(t.cells)), script, t.shape, t.cells, [k \in 1..Len(t.cells) |-> MaskOf(S, t)[k] = MT], <<>>),
         cells |-> t.cells])]

ApplyX(S, op) == IF op.k = "MIter" THEN MIterT(S, op.h, op.a) ELSE Apply(S, op)
RECURSIVE RunOpsX(_, _, _)
RunOpsX(S, ops, acc) ==
    IF ops = <<>> THEN [S |-> S, steps |-> acc]
    ELSE LET o == ApplyX(S, Head(ops))
         IN IF o.res.st # "ok" THEN [S |-> o.S, steps |-> Append(acc, [op |-> Head(ops), res |-> o.res])]
            ELSE RunOpsX(o.S, Tail(ops), Append(acc, [op |-> Head(ops), res |-> o.res]))
DoAllX(ops) ==
    LET r == RunOpsX(St, ops, steps)
    IN /\ heap' = r.S.heap /\ allocs' = r.S.allocs /\ live' = r.S.live /\ steps' = r.steps

MScripts(n) ==
    {Rep("NextValid", n + 1), Rep("NextInvalid", n + 1), Rep("NextValidity", n + 1),
     <<"Rev">> \o Rep("NextValid", n + 1), <<"Rev">> \o Rep("NextInvalid", n + 1),
     <<"NextValid", "NextInvalid", "NextValid", "NextInvalid", "Reset", "NextInvalid", "NextValid", "Next", "NextValid">>,
     <<"Next", "NextValid", "Rev", "NextInvalid", "NextValid", "Fwd", "NextValid", "NextValidity">>}

(* rank-4 tensors (too many elements for every mask): a family of patterned masks *)
BigShapes == {<<2, 3, 2, 2>>, <<2, 2, 2, 3>>, <<3, 2, 1, 2>>}
BigMasks(n) == {[i \in 1..n |-> 0], [i \in 1..n |-> 1], [i \in 1..n |-> i % 2], [i \in 1..n |-> IF i % 3 = 0 THEN 1 ELSE 0],
                [i \in 1..n |-> IF i = 5 THEN 1 ELSE 0], [i \in 1..n |-> IF i <= n \div 2 THEN 1 ELSE 0],
                [i \in 1..n |-> IF (i \div 2) % 2 = 0 THEN 1 ELSE 0]}
NextBig ==
    /\ steps = <<>> /\ Mode = "inspect"
    /\ \E s \in BigShapes : \E m \in BigMasks(Prod(s)) :
         DoAllX(<<Op("NewMasked", 0, <<s, m>>), Op("MaskInspect", 1, <<>>)>>)

Next ==
    /\ steps = <<>>
    /\ \E s \in ShapeSet : Prod(s) <= MaxMask /\ \E m \in Masks(Prod(s)) :
         LET new == Op("NewMasked", 0, <<s, m>>)
         IN CASE Mode = "inspect" ->
                   \/ DoAllX(<<new, Op("MaskInspect", 1, <<>>)>>)
                   \/ \E v \in {0, 1} : DoAllX(<<new, Op("Filled", 1, <<v>>)>>)
              [] Mode = "iter" -> \E sc \in MScripts(Prod(s)) : DoAllX(<<new, Op("MIter", 1, sc)>>)
              [] Mode = "pred" ->
                   \E p \in Preds, soft \in {0, 1}, prior \in {0, 1} :
                      /\ (prior = 0 => m = [i \in 1..Prod(s) |-> 0])
                      /\ DoAllX((IF prior = 1 THEN <<new>> ELSE <<Op("New", 0, <<s, "C", "">>)>>)
                                  \o (IF soft = 1 THEN <<Op("Soften", 1, <<1>>)>> ELSE <<>>)
                                  \o <<Op("MaskPred", 1, <<p, 2, 4>>)>>
                                  \o <<Op("MaskPred", 1, <<"gt", 3, 0>>)>>)
              [] Mode = "through" ->
                   \/ \E p \in Perms(Len(s)) : ~IsIdent(p) /\
                        \/ DoAllX(<<new, Op("T", 1, p)>>)
                        \/ DoAllX(<<new, Op("T", 1, p), Op("Transpose", 1, <<>>)>>)
                        \/ DoAllX(<<new, Op("T", 1, p), Op("UT", 1, <<>>)>>)
                   \/ Len(s) >= 1 /\ \E sl \in SliceListsPrefix(s, AxisPaletteSmall) :
                        /\ ~SliceBad(s, sl) /\ ~SliceOpen(s, sl)
                        /\ \/ DoAllX(<<new, Op("Slice", 1, sl)>>)
                           \* the mask written THROUGH the view: only the view's elements may change
                           \/ DoAllX(<<new, Op("Slice", 1, sl), Op("MaskPred", 2, <<"gt", 2, 0>>)>>)
                           \* (softness is set on the view itself: whether a view inherits it from its source is not stated)
                           \/ DoAllX(<<new, Op("Slice", 1, sl), Op("Soften", 2, <<1>>), Op("MaskPred", 2, <<"le", 3, 0>>)>>)
                           \/ DoAllX(<<new, Op("Slice", 1, sl), Op("ResetMask", 2, <<>>)>>)
              [] Mode = "unary" ->      \* a masked operand of a safe unary operation / Apply: the operand is an operand
                   DoAllX(<<new, Op("Unary", 1, <<"OP", "safe", 0, 1, 2>>)>>)
              [] Mode = "arg" ->        \* masked elements do not take part in arg-reductions
                   Len(s) >= 1 /\ \E f \in {"max", "min"}, ax \in (-1)..(Len(s) - 1) : DoAllX(<<new, Op("Arg", 1, <<f, ax>>)>>)
              [] Mode = "ops" ->
                   \E m2 \in {[i \in 1..Prod(s) |-> 0], [i \in 1..Prod(s) |-> IF i = 1 THEN 1 ELSE 0], [i \in 1..Prod(s) |-> 1 - m[i]]} :
                     \/ DoAllX(<<new, Op("NewMasked", 0, <<s, m2>>), Op("Arith", 1, <<"OP", "TT", 2, "safe", 0>>)>>)
                     \/ DoAllX(<<new, Op("Arith", 1, <<"OP", "TS", 1, "safe", 0>>)>>)

Spec == Init /\ [][Next \/ NextBig]_vars
CaseRec == [fam |-> "mask", steps |-> steps, live |-> live, heap |-> heap, allocs |-> allocs]
Emit == IF steps # <<>> THEN PrintT(<<"CASE", ToJson(CaseRec)>>) ELSE TRUE

(* design-level: valid/invalid stepping partitions the positions by the mask *)
SteppingPartitions ==
    \A h \in 1..Len(live) : IsMaskedT(St, live[h]) =>
        LET t == live[h] n == Len(t.cells)
            m == [k \in 1..n |-> MaskOf(St, t)[k] = MT]
            v == IterRun(IterInit(n), Rep("NextValid", n + 1), t.shape, t.cells, m, <<>>)
            iv == IterRun(IterInit(n), Rep("NextInvalid", n + 1), t.shape, t.cells, m, <<>>)
        IN /\ {v[k].idx : k \in {k \in 1..(n + 1) : v[k].err = 0}} = {Off(t.cells, k - 1) : k \in {k \in 1..n : ~m[k]}}
           /\ {iv[k].idx : k \in {k \in 1..(n + 1) : iv[k].err = 0}} = {Off(t.cells, k - 1) : k \in {k \in 1..n : m[k]}}
=============================================================================
