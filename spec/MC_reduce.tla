----------------------------- MODULE MC_reduce -----------------------------
(***************************************************************************)
(* C08: reductions.  Shapes of rank 1..MaxRank x operand layouts x every   *)
(* non-empty set of axes in every order of listing (rank <= 3; beyond:     *)
(* ascending and descending), plus the empty list (= all); every single    *)
(* axis and all-axes for the arg-reductions.  The fold operator is the     *)
(* placeholder "OP" (sum, max, min, generic Reduce).                       *)
(***************************************************************************)
EXTENDS Layouts, Gen, Json

CONSTANTS MinRank, MaxRank, MaxDim, MaxDimHi, HiRank, LayA, Kinds

Shapes == UNION {ShapesOfRank(r, IF r >= HiRank THEN MaxDimHi ELSE MaxDim) : r \in MinRank..MaxRank}

(* all sequences of distinct axes *)
RECURSIVE OrderedSubsets(_)
OrderedSubsets(A) == {<<>>} \cup UNION {{<<a>> \o s : s \in OrderedSubsets(A \ {a})} : a \in A}
AxisLists(r) ==
    IF r <= 3 THEN OrderedSubsets(0..(r - 1))
    ELSE {<<>>} \cup UNION {{SortedSeq(A), Rev(SortedSeq(A))} : A \in (SUBSET (0..(r - 1))) \ {{}}}

Next ==
    /\ steps = <<>>
    /\ \E s \in Shapes, la \in LayA :
         /\ LayoutOK(la, s)
         /\ LET ra == Recipe(la, s, 1, "")
            IN \/ "Reduce" \in Kinds /\ \E ax \in AxisLists(Len(s)) :
                    DoAll(ra.ops \o <<Op("Reduce", ra.h, <<"OP", ax>>)>>)
               \/ "Arg" \in Kinds /\ \E ax \in (-1)..(Len(s) - 1) :
                    DoAll(ra.ops \o <<Op("Arg", ra.h, <<"OP", ax>>)>>)

Spec == Init /\ [][Next]_vars
CaseRec == [fam |-> "reduce", steps |-> steps, live |-> live, heap |-> heap, allocs |-> allocs]
Emit == IF steps # <<>> THEN PrintT(<<"CASE", ToJson(CaseRec)>>) ELSE TRUE

(* design-level: the fibres of a reduction partition the operand's cells *)
FibresPartition ==
    steps # <<>> /\ steps[Len(steps)].op.k = "Reduce" /\ steps[Len(steps)].res.st = "ok" =>
        LET op == steps[Len(steps)].op
            t == live[op.h] r == Len(t.shape)
            A == IF op.a[2] = <<>> THEN 1..r ELSE {op.a[2][i] + 1 : i \in 1..Len(op.a[2])}
            n == Prod(ReducedShape(t.shape, A))
        IN /\ UNION {Range(Fibre(t.shape, t.cells, A, k)) : k \in 0..(n - 1)} = Range(t.cells)
           /\ \A k1, k2 \in 0..(n - 1) : k1 # k2 =>
                 Range(Fibre(t.shape, t.cells, A, k1)) \cap Range(Fibre(t.shape, t.cells, A, k2)) = {}
=============================================================================
