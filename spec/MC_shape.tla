------------------------------ MODULE MC_shape -----------------------------
(***************************************************************************)
(* C13: shape algebra.  (a) Reshape to every factorisation of the size     *)
(* (and to shapes of a different size) after slicing / transposing;        *)
(* (b) the transposition argument space, valid and invalid permutations    *)
(* (the replayer calls the shape-only calculator next to the operation     *)
(* and compares them); the slicing / repetition / concatenation argument   *)
(* spaces are those of MC_slice and MC_assemble, replayed with the         *)
(* calculator cross-check switched on.                                     *)
(***************************************************************************)
EXTENDS Tensor, Gen, Json

CONSTANTS MinRank, MaxRank, MaxDim, MaxDimHi, HiRank, Ctors, MaxNewRank, WithViews, Mode

Shapes == UNION {ShapesOfRank(r, IF r >= HiRank THEN MaxDimHi ELSE MaxDim) : r \in MinRank..MaxRank}

LastK == IF steps = <<>> THEN "" ELSE steps[Len(steps)].op.k
V == Len(live)

Targets(n) == UNION {Factorisations(n, r) : r \in 0..MaxNewRank}
                \cup {<<n + 1>>, <<n, 2>>} \cup (IF n > 1 THEN {<<n - 1>>, <<>>} ELSE {})

(* axis lists offered to T: every sequence over -1..r of length r-1..r+1 would be too many; take all
   sequences of length r over 0..r (includes repeated and out-of-range axes) plus wrong lengths *)
AxisLists(r) == [1..r -> 0..r] \cup (IF r >= 1 THEN {[i \in 1..(r - 1) |-> i - 1], [i \in 1..(r + 1) |-> i - 1]} ELSE {})

Next ==
    \/ /\ steps = <<>>
       /\ \E sh \in Shapes, c \in Ctors : Do(Op("New", 0, <<sh, c>>))
    \/ /\ Len(steps) = 1 /\ WithViews /\ Len(live[1].shape) >= 1
       /\ \/ \E sl \in SliceListsPrefix(live[1].shape, AxisPaletteSmall) :
               /\ ~SliceBad(live[1].shape, sl) /\ ~SliceOpen(live[1].shape, sl)
               /\ Do(Op("Slice", 1, sl))
          \/ Mode = "reshape" /\ \E p \in Perms(Len(live[1].shape)) : ~IsIdent(p) /\ Do(Op("T", 1, p))
    \/ /\ Mode = "reshape" /\ Len(steps) \in {1, 2} /\ LastOK /\ LastK # "Reshape"
       /\ \E ns \in Targets(Prod(live[V].shape)) : Do(Op("Reshape", V, ns))
    \/ /\ Mode = "reshape" /\ LastK = "Reshape" /\ LastOK /\ Len(steps) <= 3       \* a reshape of the reshaped tensor
       /\ steps[Len(steps) - 1].op.k # "Reshape"
       /\ \E ns \in Factorisations(Prod(live[V].shape), 2) : Do(Op("Reshape", steps[Len(steps)].op.h, ns))

(* TCalc: T with an arbitrary axis list; the replayer also asks the shape-only calculator *)
TCalcT(S, h, p) ==
    LET t == S.live[h]
    IN IF IsPerm(EffPerm(t, p), Len(t.shape)) THEN TT(S, h, p)
       ELSE Free(S)     \* not a permutation of the axes: the statements only demand that calculator and operation agree

ApplyX(S, op) == IF op.k = "TCalc" THEN TCalcT(S, op.h, op.a) ELSE Apply(S, op)
DoX(op) ==
    LET o == ApplyX(St, op)
    IN /\ heap' = o.S.heap /\ allocs' = o.S.allocs /\ live' = o.S.live
       /\ steps' = Append(steps, [op |-> op, res |-> o.res])

NextX ==
    \/ /\ Mode = "perm" /\ Len(steps) \in {1, 2} /\ LastOK /\ LastK \in {"New", "Slice"}
       /\ \E p \in AxisLists(Len(live[V].shape)) : DoX(Op("TCalc", V, p))
    \* a second (and third) transposition of the tensor whose transposition is still pending: the calculator
    \* is applied to the access pattern the first one left behind (involutions, cycles, undo and non-undo)
    \/ /\ Mode = "perm" /\ Len(steps) \in {2, 3, 4} /\ LastOK /\ LastK = "TCalc"
       /\ Cardinality({i \in 1..Len(steps) : steps[i].op.k = "TCalc"}) <= 2
       /\ \E p \in Perms(Len(live[V].shape)) : DoX(Op("TCalc", steps[Len(steps)].op.h, p))
    \/ Next

Spec == Init /\ [][NextX]_vars

CaseRec == [fam |-> "shape", steps |-> steps, live |-> live, heap |-> heap, allocs |-> allocs]
Emit == IF LastK \in {"Reshape", "TCalc"} THEN PrintT(<<"CASE", ToJson(CaseRec)>>) ELSE TRUE

(* design-level: reshape never changes the multiset of cells nor the flat sequence in the tensor's order *)
ReshapeKeepsFlat ==
    \A h \in 1..Len(live) : LET t == live[h] IN
        t.pend = NoPend /\ ~t.view /\ allocs[t.al].kind = "b" =>   \* the storage order of a base tensor is its flat order
            FlatOrder(t.shape, t.cells, t.ord) = SortedSeq(Range(t.cells))
=============================================================================
