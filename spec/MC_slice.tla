------------------------------ MODULE MC_slice -----------------------------
(***************************************************************************)
(* C02: slicing.  Sources {row-major, column-major, lazily transposed,     *)
(* slice} x shapes x the complete per-axis argument space of the statement *)
(* (nil, single index -1..d, ranges with start -1..d, end 0..d+1, step     *)
(* 0..MaxStep, fewer slices than axes), nested to depth Depth.             *)
(***************************************************************************)
EXTENDS Tensor, Gen, Json

CONSTANTS MinRank, MaxRank, MaxDim, MaxDimHi, FullRank, MaxStep, Ctors, Depth, WithT

Shapes == UNION {ShapesOfRank(r, IF r > FullRank THEN MaxDimHi ELSE MaxDim) : r \in MinRank..MaxRank}

Full(d) == AxisSlicesFull(d, MaxStep)
Pal(d)  == AxisPalette(d)
PalS(d) == AxisPaletteSmall(d)

(* the argument space of the slice under test *)
Args(shape) ==
    IF Len(shape) <= FullRank THEN SliceListsPrefix(shape, Full)
    ELSE SliceListsOneFull(shape, PalS, Full)

NSlices == Cardinality({i \in 1..Len(steps) : steps[i].op.k = "Slice"})
LastK == IF steps = <<>> THEN "" ELSE steps[Len(steps)].op.k
Target == Len(live)

Next ==
    \/ /\ steps = <<>>
       /\ \E sh \in Shapes, c \in Ctors : Do(Op("New", 0, <<sh, c>>))
    \/ /\ Len(steps) = 1 /\ WithT
       /\ \E p \in Perms(Len(live[1].shape)) : ~IsIdent(p) /\ Do(Op("T", 1, p))
    \/ /\ Len(steps) >= 1 /\ LastOK /\ NSlices = 0
       /\ \E sl \in Args(live[Target].shape) : Do(Op("Slice", Target, sl))
    \/ /\ NSlices >= 1 /\ NSlices < Depth /\ LastOK /\ LastK = "Slice"
       /\ Len(live[Target].shape) >= 1
       /\ \E sl \in SliceListsPrefix(live[Target].shape, PalS) :
            /\ ~SliceBad(live[Target].shape, sl) /\ ~SliceOpen(live[Target].shape, sl)
            /\ Do(Op("Slice", Target, sl))

Spec == Init /\ [][Next]_vars

CaseRec == [fam |-> "slice", steps |-> steps, live |-> live, heap |-> heap, allocs |-> allocs]
Emit == IF LastK = "Slice" THEN PrintT(<<"CASE", ToJson(CaseRec)>>) ELSE TRUE

(* design-level checks of the oracle: a view's cells are a sub-selection of its source's, in
   source order along every axis; the number of entries is the ceiling formula of the statement *)
ViewsAreSubselections ==
    \A h \in 1..Len(live) : live[h].view => Range(live[h].cells) \subseteq
        UNION {Range(live[g].cells) : g \in {g \in 1..Len(live) : ~live[g].view}}
=============================================================================
