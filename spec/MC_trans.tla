------------------------------ MODULE MC_trans -----------------------------
(***************************************************************************)
(* C03: transposition.  Programs over lazy transpose, its undo, physical   *)
(* transposition, materialisation, the copying transposes and axis rolling *)
(* on contiguous, sliced and column-major sources.                         *)
(***************************************************************************)
EXTENDS Tensor, Gen, Json

CONSTANTS MinRank, MaxRank, MaxDim, MaxDimHi, HiRank, Ctors, MaxLen, WithSlice, PermPalette, Alphabet, BothTargets

Shapes == UNION {ShapesOfRank(r, IF r >= HiRank THEN MaxDimHi ELSE MaxDim) : r \in MinRank..MaxRank}

(* permutations offered to T/SafeT: all of them up to rank 3 (or when PermPalette is off); beyond,
   the default reversal, one swap and the two cyclic rolls *)
PermsFor(r) ==
    IF r <= 3 \/ ~PermPalette THEN Perms(r) \cup {<<>>}
    ELSE {<<>>, Reversal(r), [i \in 1..r |-> IF i = 1 THEN 1 ELSE IF i = 2 THEN 0 ELSE i - 1],
          [i \in 1..r |-> i % r], [i \in 1..r |-> (i + r - 2) % r]}

LastK == IF steps = <<>> THEN "" ELSE steps[Len(steps)].op.k
NProg == Cardinality({i \in 2..Len(steps) : ~(steps[i].op.k = "Slice" /\ i = 2 /\ WithSlice)})
Targets == IF BothTargets THEN {1, Len(live)} ELSE {Len(live)}

Next ==
    \/ /\ steps = <<>>
       /\ \E sh \in Shapes, c \in Ctors : Do(Op("New", 0, <<sh, c>>))
    \/ /\ Len(steps) = 1 /\ WithSlice /\ Len(live[1].shape) >= 1
       /\ \E sl \in SliceListsPrefix(live[1].shape, AxisPaletteSmall) :
            /\ ~SliceBad(live[1].shape, sl) /\ ~SliceOpen(live[1].shape, sl) /\ \E i \in 1..Len(sl) : sl[i] # SlNil
            /\ Do(Op("Slice", 1, sl))
    \/ /\ Len(steps) >= 1 /\ LastOK /\ NProg < MaxLen
       /\ \E h \in Targets :
            LET r == Len(live[h].shape) IN
            \/ "T" \in Alphabet /\ \E p \in PermsFor(r) : Do(Op("T", h, p))
            \/ "UT" \in Alphabet /\ Do(Op("UT", h, <<>>))
            \/ "Transpose" \in Alphabet /\ Do(Op("Transpose", h, <<>>))
            \/ "Materialize" \in Alphabet /\ Do(Op("Materialize", h, <<>>))
            \/ "ShallowReturn" \in Alphabet /\ LastK # "ShallowReturn" /\ Do(Op("ShallowReturn", h, <<>>))
            \* the full view (all-nil slice) of the tensor as it stands: the program continues on the view
            \/ "FullView" \in Alphabet /\ r >= 1 /\ Do(Op("Slice", h, <<SlNil>>))
            \/ "SafeT" \in Alphabet /\ \E p \in PermsFor(r) : Do(Op("SafeT", h, p))
            \/ "RollAxis" \in Alphabet /\ \E ax \in 0..(r - 1), st \in 0..r, sf \in {0, 1} : Do(Op("RollAxis", h, <<ax, st, sf>>))

Spec == Init /\ [][Next]_vars

CaseRec == [fam |-> "trans", steps |-> steps, live |-> live, heap |-> heap, allocs |-> allocs]
Emit == IF NProg >= 1 THEN PrintT(<<"CASE", ToJson(CaseRec)>>) ELSE TRUE

(* design-level checks of the oracle *)
PendConsistent ==       \* a pending lazy transpose is exactly the recorded permutation of the saved arrangement
    \A h \in 1..Len(live) : live[h].pend # NoPend =>
        LET pd == live[h].pend[1]
        IN \/ ScalarEquiv(pd.shape) \/ pd.perm = <<>> \/ IsIdent(pd.perm)
           \/ /\ TransShape(pd.shape, pd.perm) = live[h].shape
              /\ TransCells(pd.shape, pd.cells, pd.perm) = live[h].cells
ComposeLaw ==           \* transposing by p and then by q is transposing by the composed permutation
    \A h \in 1..Len(live) : LET t == live[h] r == Len(t.shape) IN
        r \in 2..3 => \A p \in Perms(r), q \in Perms(r) :
            /\ TransCells(TransShape(t.shape, p), TransCells(t.shape, t.cells, p), q)
                 = TransCells(t.shape, t.cells, Compose(p, q))
            /\ TransShape(TransShape(t.shape, p), q) = TransShape(t.shape, Compose(p, q))
InverseLaw ==
    \A h \in 1..Len(live) : LET t == live[h] r == Len(t.shape) IN
        r \in 2..4 => \A p \in PermsFor(r) \ {<<>>} :
            TransCells(TransShape(t.shape, p), TransCells(t.shape, t.cells, p), InvPerm(p)) = t.cells
=============================================================================
