------------------------------ MODULE MC_views -----------------------------
(***************************************************************************)
(* C04: views alias their source, copies never do, writes stay inside the  *)
(* view.  Every view obtainable by <= ViewDepth slice/transpose steps x    *)
(* every whole-tensor write with a sentinel-filled parent (every parent    *)
(* cell holds its own distinct value, so any stray write is visible), and  *)
(* every copy operation x probe writes on either side.                     *)
(***************************************************************************)
EXTENDS Tensor, Gen, Json

CONSTANTS MinRank, MaxRank, MaxDim, MaxDimHi, HiRank, Ctors, ViewDepth, RichPalette, Writes, Copies

Shapes == UNION {ShapesOfRank(r, IF r >= HiRank THEN MaxDimHi ELSE MaxDim) : r \in MinRank..MaxRank}
Pal(d) == IF RichPalette THEN AxisPalette(d) ELSE AxisPaletteSmall(d)

LastK == IF steps = <<>> THEN "" ELSE steps[Len(steps)].op.k
ViewOps == {"Slice", "T", "ShallowClone"}
NViews == Cardinality({i \in 1..Len(steps) : steps[i].op.k \in ViewOps})
OnlyViewsSoFar == \A i \in 2..Len(steps) : steps[i].op.k \in ViewOps
V == Len(live)          \* the view under test: the most recent tensor
Origin(t) == [i \in 1..Len(t.shape) |-> 0]
Corner(t) == [i \in 1..Len(t.shape) |-> t.shape[i] - 1]
PrevK == IF Len(steps) < 2 THEN "" ELSE steps[Len(steps) - 1].op.k

Next ==
    \/ /\ steps = <<>>
       /\ \E sh \in Shapes, c \in Ctors : Do(Op("New", 0, <<sh, c>>))
    (* build the view *)
    \/ /\ Len(steps) >= 1 /\ OnlyViewsSoFar /\ NViews < ViewDepth /\ LastOK /\ Len(live[V].shape) >= 1
       /\ \/ \E sl \in SliceListsPrefix(live[V].shape, Pal) :
               /\ ~SliceBad(live[V].shape, sl) /\ ~SliceOpen(live[V].shape, sl)
               /\ Do(Op("Slice", V, sl))
          \/ /\ V = 1 \/ ~live[V].view \/ TRUE
             /\ \E p \in Perms(Len(live[V].shape)) : ~IsIdent(p) /\ Do(Op("T", V, p))
          (* a shallow clone is a view of everything: same cells, its own access-pattern record *)
          \/ "ShallowClone" \in Copies /\ LastK # "ShallowClone" /\ Do(Op("ShallowClone", V, <<>>))
    (* whole-tensor writes through the view *)
    \/ /\ Len(steps) >= 1 /\ OnlyViewsSoFar /\ LastOK
       /\ \/ "Memset" \in Writes /\ Do(Op("Memset", V, <<1>>))
          \/ "Zero" \in Writes /\ Do(Op("Zero", V, <<>>))
          \/ "UnsafeUn" \in Writes /\ Do(Op("UnsafeUn", V, <<"neg">>))
          \/ "UnsafeBinK" \in Writes /\ Do(Op("UnsafeBinK", V, <<"add", 2>>))
          \/ "SetSweep" \in Writes /\ Do(Op("SetSweep", V, <<>>))
          \/ "SetAt" \in Writes /\ \E h \in {1, V} : \E c \in {Origin(live[h]), Corner(live[h])} :
                 Do(Op("SetAt", h, <<c, 3>>))
          \/ ({"Copy", "UnsafeBinT", "CopyInto", "CopyTo"} \cap (Writes \cup Copies)) # {}
               /\ Do(Op("New", 0, <<live[V].shape, live[V].ord>>))  \* a fresh operand of the view's shape and data order
          \/ "Clone" \in Copies /\ Do(Op("Clone", V, <<>>))
          \/ "Materialize" \in Copies /\ Do(Op("Materialize", V, <<>>))
          \/ "SafeT" \in Copies /\ \E p \in Perms(Len(live[V].shape)) \cup {<<>>} : Do(Op("SafeT", V, p))
          \/ "Native" \in Copies /\ Len(live[V].shape) \in 1..3 /\ Do(Op("Export", V, <<"native">>))
          \/ "Mat64" \in Copies /\ Len(live[V].shape) = 2 /\ Do(Op("Export", V, <<"mat64">>))
    (* writes that need the fresh operand B = V, the view is V-1 *)
    \/ /\ Len(steps) >= 2 /\ LastK = "New" /\ LastOK
       /\ \/ "Copy" \in Writes /\ Do(Op("Copy", V - 1, <<V>>))           \* copy INTO the view
          \/ "UnsafeBinT" \in Writes /\ Do(Op("UnsafeBinT", V - 1, <<"add", V>>))
          \/ "CopyInto" \in Copies /\ Do(Op("Copy", V, <<V - 1>>))       \* copy OUT of the view into B
          \/ "CopyTo" \in Copies /\ Do(Op("CopyTo", V - 1, <<V>>))
    (* after a copy: probe writes on either side show that no storage is shared *)
    \/ /\ Len(steps) >= 2 /\ LastOK
       /\ \/ /\ LastK \in {"Clone", "Materialize", "SafeT"} /\ steps[Len(steps)].res.h = V
             /\ \E h \in {V, steps[Len(steps)].op.h} : Do(Op("SetAt", h, <<Origin(live[h]), 4>>))
          \/ /\ LastK \in {"Copy", "CopyTo"} /\ PrevK = "New" /\ steps[Len(steps)].res.st = "ok"
             /\ \E h \in {V, V - 1} : Do(Op("SetAt", h, <<Corner(live[h]), 4>>))

Spec == Init /\ [][Next]_vars

CaseRec == [fam |-> "views", steps |-> steps, live |-> live, heap |-> heap, allocs |-> allocs]
Emit == IF Len(steps) >= 2 /\ LastK \notin (ViewOps \cup {"New"}) THEN PrintT(<<"CASE", ToJson(CaseRec)>>) ELSE TRUE

(* the frame, as an action property of the specification: a step changes the heap only on the
   cells of its designated destination *)
Dest(op) == CASE op.k \in {"Memset", "Zero", "UnsafeUn", "UnsafeBinK", "SetSweep", "Copy", "UnsafeBinT", "SetAt",
                         \* a physical transposition permutes values inside the tensor's own cells only
                         "T", "Transpose", "Reshape"} -> op.h
              [] op.k = "CopyTo" -> op.a[1]
              [] OTHER -> 0
Frame ==
    [][LET op == steps'[Len(steps')].op d == Dest(op)
       IN \A c \in 1..Len(heap) :
            (d = 0 \/ c \notin Range(live[d].cells)) => heap'[c] = heap[c]]_vars

ViewAliases ==   \* a view's cells are cells of the tensor it was taken from
    \A h \in 1..Len(live) : live[h].view =>
        \E g \in 1..Len(live) : g # h /\ ~live[g].view /\ Range(live[h].cells) \subseteq Range(live[g].cells)
=============================================================================
