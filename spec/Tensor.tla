------------------------------ MODULE Tensor ------------------------------
(***************************************************************************)
(* Level 1: the abstract tensor machine.                                   *)
(*                                                                         *)
(* State:                                                                  *)
(*   heap    Seq(Term)    heap[c] is the value (as a term) of cell c       *)
(*   allocs  Seq(ARec)    [start, len, kind]; kind "b" = a backing slice   *)
(*                        the caller handed in (storage positions are      *)
(*                        observable: cell start+i is position i), kind    *)
(*                        "l" = allocated by the library (cells are pure   *)
(*                        identities, observable only through At)          *)
(*   live    Seq(TRec)    the tensors of the program, indexed by handle    *)
(*   steps   Seq([op,res]) the program so far and the result of each call  *)
(*                                                                         *)
(* Every public operation of the library is one case of Apply(S, op): a    *)
(* function from the machine state and the call's arguments to the next    *)
(* state and the call's result.  The very same Apply is used by the        *)
(* exhaustive configurations (MC_xxx), by the simulation configurations and *)
(* by the trace specification (Trace.tla).                                 *)
(*                                                                         *)
(* Values are TERMS so that one behaviour stands for every element type:   *)
(*   <<"c", i>>        the value the harness stored in cell i initially    *)
(*   <<"k", j>>        the j-th scalar constant of the harness             *)
(*   <<"z">>           the zero value of the element type                  *)
(*   <<"un", f, t>>    unary function f of t                               *)
(*   <<"bin", f, t, u>> binary operator f applied to (t, u) in this order  *)
(*   <<"fold", f, <<t...>>>> left fold, <<"dot", <<<<t,u>>...>>>>          *)
(*   <<"ix", n>>       the integer n (an index result)                     *)
(*   <<"cmp", f, t, u>> truth value of Go's comparison f of (t, u)         *)
(*   <<"b", t>>        truth value t as 1/0 of the element type            *)
(*   <<"clamp", t, lo, hi>>                                                *)
(*   <<"arg", f, <<t...>>>> first index of the maximum / minimum           *)
(*   <<"argm", f, <<t...>>, <<p...>>>> the same over the unmasked elements  *)
(*                     t of a masked fibre, which sit at positions p        *)
(* The harness evaluates a term with Go's own operator of the element      *)
(* type; Interp.tla evaluates it over the integers.                        *)
(***************************************************************************)
EXTENDS Base, TLC

VARIABLES heap, allocs, live, steps
vars == <<heap, allocs, live, steps>>

Cell(c) == <<"c", c>>
K(j)    == <<"k", j>>
ZeroV   == <<"z">>

NoPend  == <<>>
ReshapeReuseOpen == FALSE
Contiguous(cs) == LET R == Range(cs) IN SetMax(R) - SetMin(R) + 1 = Cardinality(R)

St == [heap |-> heap, allocs |-> allocs, live |-> live]

(* result of a call:
   st   "ok"   the call must be served         "err"  it must be rejected with an error
        "free" the statement leaves the outcome open (nothing is compared, the case ends)
   ref  a refusal (error) is an accepted outcome of an "ok" call; the case ends there
   h    handle of the returned tensor (0: none)
   v    returned value term, <<>> if none
   x    extra, operation specific *)
Res(st, ref, h, v, x) == [st |-> st, ref |-> ref, h |-> h, v |-> v, x |-> x]
Out(S, r) == [S |-> S, res |-> r]
OkH(S, h)   == Out(S, Res("ok", FALSE, h, <<>>, <<>>))
Err(S)      == Out(S, Res("err", FALSE, 0, <<>>, <<>>))
Free(S)     == Out(S, Res("free", FALSE, 0, <<>>, <<>>))

SetLive(S, h, t) == [S EXCEPT !.live[h] = t]
AddLive(S, t)    == [S EXCEPT !.live = Append(S.live, t)]
NewH(S)          == Len(S.live) + 1

(* write value-terms vs[k] to cells cs[k] *)
WriteCells(S, cs, vs) ==
    [S EXCEPT !.heap = [c \in 1..Len(S.heap) |->
        IF \E k \in 1..Len(cs) : cs[k] = c
        THEN vs[CHOOSE k \in 1..Len(cs) : cs[k] = c]
        ELSE S.heap[c]]]

(* allocate n fresh cells initialised with the terms init[1..n]; returns <<S', start>> *)
AllocL(S, init, kind) ==
    LET start == Len(S.heap) + 1
    IN [S |-> [S EXCEPT !.heap = S.heap \o init,
                        !.allocs = Append(S.allocs, [start |-> start, len |-> Len(init), kind |-> kind, et |-> "", mask |-> <<>>, soft |-> FALSE, mopen |-> FALSE])],
        start |-> start]

(* element type tag of the latest allocation: "" = the element type of the run, "bool", "int" *)
SetET(S, et) == [S EXCEPT !.allocs[Len(S.allocs)].et = et]

(* Masks.  A mask lives with the storage: allocs[a].mask is <<>> (unmasked) or one entry per storage
   position: 0 / 1, or a truth-valued term.  A tensor is masked iff its allocation is; the mask of
   element k is the entry of cell cells[k], so a mask travels with its elements through slicing and
   transposition by construction. *)
AllocOf(S, c) == CHOOSE a \in 1..Len(S.allocs) : c >= S.allocs[a].start /\ c < S.allocs[a].start + S.allocs[a].len
IsMaskedT(S, t) == S.allocs[t.al].mask # <<>>
MT == <<"t">>      \* mask entries are truth-valued terms: the constants "t" / "f", or comparison terms
MF == <<"f">>
MaskBit(S, c) == LET a == S.allocs[AllocOf(S, c)] IN IF a.mask = <<>> THEN MF ELSE a.mask[c - a.start + 1]
MaskOf(S, t) == [k \in 1..Len(t.cells) |-> MaskBit(S, t.cells[k])]
(* write mask entries ms[k] at cells cs[k] (all in allocation a, which must be masked) *)
WriteMask(S, a, cs, ms) ==
    [S EXCEPT !.allocs[a].mask = [i \in 1..S.allocs[a].len |->
        LET c == S.allocs[a].start + i - 1
        IN IF \E k \in 1..Len(cs) : cs[k] = c THEN ms[CHOOSE k \in 1..Len(cs) : cs[k] = c] ELSE S.allocs[a].mask[i]]]
SetMaskAll(S, a, bits) == [S EXCEPT !.allocs[a].mask = bits]
Or01(x, y) == IF x = MT \/ y = MT THEN MT ELSE IF x = MF THEN y ELSE IF y = MF THEN x ELSE <<"or", x, y>>

ValuesOf(S, cs) == [k \in 1..Len(cs) |-> S.heap[cs[k]]]

(***************************************************************************)
(* Construction                                                            *)
(*   "C"      row-major over the caller's backing                          *)
(*   "F"      column-major DECLARED over the caller's raw backing          *)
(*   "Fconv"  the constructor that converts a given (row-major) sequence   *)
(*            to column-major: the sequence keeps its row-major meaning    *)
(***************************************************************************)
NewT(S, shape, ctor, et) ==
    LET n     == Prod(shape)
        start == Len(S.heap) + 1
        (* "Cpre" / "Fpre": the same tensors with the construction options given in another order (backing, or the
           column-major declaration, BEFORE the shape): the order of options is not part of any statement *)
        ord   == IF ctor \in {"C", "Cpre"} THEN "C" ELSE "F"
        init  == [i \in 1..n |-> Cell(start + i - 1)]
        (* Fconv: logical element k (row-major) is input element k; its storage is not specified *)
        cells == IF ctor = "Fconv" THEN [k \in 1..n |-> start + k - 1]
                 ELSE NewCells(shape, start, ord)
        a     == AllocL(S, init, IF ctor = "Fconv" THEN "l" ELSE "b")
        t     == [shape |-> shape, cells |-> cells, view |-> FALSE, pend |-> NoPend,
                  ord |-> ord, al |-> Len(S.allocs) + 1, wide |-> FALSE]
    IN OkH(AddLive(SetET(a.S, et), t), NewH(S))

(***************************************************************************)
(* Element access                                                          *)
(***************************************************************************)
AtT(S, h, c) ==
    LET t == S.live[h]
    IN IF InBox(c, t.shape)
       THEN Out(S, Res("ok", FALSE, 0, S.heap[t.cells[RankOf(c, t.shape) + 1]], <<>>))
       ELSE Err(S)

SetAtT(S, h, c, v) ==
    LET t == S.live[h]
    IN IF InBox(c, t.shape)
       THEN OkH(WriteCells(S, <<t.cells[RankOf(c, t.shape) + 1]>>, <<v>>), 0)
       ELSE Err(S)

(***************************************************************************)
(* Slicing: a view                                                         *)
(***************************************************************************)
SliceT(S, h, sls) ==
    LET t == S.live[h]
    IN IF SliceBad(t.shape, sls) THEN Err(S)
       ELSE IF SliceOpen(t.shape, sls) THEN Free(S)
       ELSE LET (* `wide`: the library keeps a storage window for the view that is wider than the span
                   of its elements (stepped ranges do not tighten it).  Not a Level-1 notion; it is
                   tracked only to name the circumstances of a listed finding. *)
                untight == \E i \in 1..Len(sls) : sls[i][1] = 2 /\ sls[i][4] > 1 /\
                              (Min2(sls[i][3], t.shape[i]) - sls[i][2] - 1) % sls[i][4] # 0
                v == [shape |-> SliceShape(t.shape, sls),
                      cells |-> SliceCells(t.shape, t.cells, sls),
                      view  |-> TRUE, pend |-> NoPend, ord |-> t.ord, al |-> t.al,
                      wide  |-> t.wide \/ untight]
                (* circumstances of a listed finding: a one-element view whose storage window is wider *)
                wide == Prod(SliceFullShape(t.shape, sls)) = 1 /\
                        (t.wide \/ \E i \in 1..Len(sls) : SlSpan(sls[i], t.shape[i]) > 1)
            IN Out(AddLive(S, v),
                   Res("ok", FALSE, NewH(S), <<>>,
                       [full |-> SliceFullShape(t.shape, sls),
                        drop |-> SliceDropOK(t.shape, sls),
                        shape |-> v.shape,
                        tags |-> IF wide THEN {"one-element-view-wide-window"} ELSE {}]))

(***************************************************************************)
(* Transposition                                                           *)
(***************************************************************************)
(* physical transposition of the pending arrangement: the values move so   *)
(* that the storage positions of the tensor, in ascending order, hold the  *)
(* elements in the tensor's own data order; no logical element changes     *)
PhysT(S, h) ==
    LET t == S.live[h]
    IN IF t.pend = NoPend \/ t.shape = <<>> THEN S
       ELSE LET pos   == SortedSeq(Range(t.cells))
                ncell == FromFlat(t.shape, pos, t.ord)
                S0    == WriteCells(S, ncell, ValuesOf(S, t.cells))
                S1    == IF IsMaskedT(S, t) THEN WriteMask(S0, t.al, ncell, MaskOf(S, t)) ELSE S0
            IN SetLive(S1, h, [t EXCEPT !.cells = ncell, !.pend = NoPend])

(* a physical move of data happens (used to name the circumstances of listed findings) *)
PhysMoves(S, h) == LET t == S.live[h] IN t.pend # NoPend /\ t.shape # <<>>
PhysTags(S, h) ==
    IF ~PhysMoves(S, h) THEN {}
    ELSE (IF S.live[h].ord = "F" THEN {"phys-colmajor"} ELSE {})
         \cup (IF S.live[h].view /\ ~Contiguous(S.live[h].cells) THEN {"phys-view-noncontig"} ELSE {})
         \cup (IF S.live[h].view THEN {"phys-view"} ELSE {})
         (* the arrangement to restore is itself not the plain storage order (a SafeT copy of a lazily
            transposed tensor, a clone with an inherited pending transpose) *)
         \cup (IF S.live[h].pend[1].np THEN {"phys-old-nonstandard"} ELSE {})
         (* a raw copy of a non-contiguous view keeps the view's strided storage window (listed finding) *)
         \cup (IF S.live[h].wide /\ ~S.live[h].view THEN {"strided-result"} ELSE {})
Tagged(o, tags) == IF tags = {} THEN o ELSE Out(o.S, [o.res EXCEPT !.x = [tags |-> tags]])

UTT(S, h) ==
    LET t == S.live[h]
    IN IF t.pend = NoPend THEN S
       ELSE SetLive(S, h, [t EXCEPT !.shape = t.pend[1].shape, !.cells = t.pend[1].cells,
                                    !.pend = NoPend])

(* the effective permutation of a T/SafeT call: <<>> is the default reversal *)
EffPerm(t, p) == IF p = <<>> THEN Reversal(Len(t.shape)) ELSE p
ScalarEquiv(shape) == Prod(shape) = 1

LazyT(S, h, p) ==   \* p a valid non-identity permutation, tensor not scalar-equivalent
    LET t == S.live[h]
    IN IF t.pend # NoPend
       THEN IF t.pend[1].perm # <<>> /\ IsIdent(Compose(t.pend[1].perm, p))   \* <<>>: the permutation is not remembered (clones)
            THEN UTT(S, h)                       \* the two transposes cancel
            ELSE LET S1 == PhysT(S, h)           \* materialise the pending one first
                     t1 == S1.live[h]
                 IN SetLive(S1, h, [t1 EXCEPT !.shape = TransShape(t1.shape, p),
                                             !.cells = TransCells(t1.shape, t1.cells, p),
                                             !.pend  = <<[shape |-> t1.shape, cells |-> t1.cells, perm |-> p, np |-> FALSE]>>])
       ELSE SetLive(S, h, [t EXCEPT !.shape = TransShape(t.shape, p),
                                    !.cells = TransCells(t.shape, t.cells, p),
                                    !.pend  = <<[shape |-> t.shape, cells |-> t.cells, perm |-> p, np |-> FALSE]>>])

TT(S, h, p0) ==
    LET t == S.live[h]
        p == EffPerm(t, p0)
    IN IF ~IsPerm(p, Len(t.shape)) THEN Free(S)
       ELSE IF ScalarEquiv(t.shape) \/ IsIdent(p) THEN OkH(S, 0)   \* no-op (a no-op error is swallowed)
       ELSE Tagged(OkH(LazyT(S, h, p), 0),
                   IF t.pend # NoPend /\ (t.pend[1].perm = <<>> \/ ~IsIdent(Compose(t.pend[1].perm, p))) THEN PhysTags(S, h) ELSE {})

TransposeT(S, h) == Tagged(OkH(PhysT(S, h), 0), PhysTags(S, h))

(* a fresh tensor holding copies of the elements of t (same logical arrangement) *)
(* position of cell c among the cells of t in storage order (0-based) *)
StoRank(t, c) == Cardinality({x \in Range(t.cells) : x < c})

(* A raw copy (Clone, SafeT, and the clone that safe arithmetic starts from) has the storage
   arrangement of its source: element k of the copy sits where element k of the source sat,
   relative to the other elements.  This matters only when the copy is later transposed
   physically while a view of it is alive. *)
FreshCopy(S, t) ==
    LET start == Len(S.heap) + 1
        f  == [k \in 1..Len(t.cells) |-> start + StoRank(t, t.cells[k])]
        init == [i \in 1..Len(t.cells) |-> S.heap[t.cells[CHOOSE k \in 1..Len(t.cells) : f[k] = start + i - 1]]]
        a  == AllocL(S, init, "l")
        S1 == IF IsMaskedT(S, t)
              THEN SetMaskAll(a.S, Len(S.allocs) + 1,
                              [i \in 1..Len(t.cells) |-> MaskBit(S, t.cells[CHOOSE k \in 1..Len(t.cells) : f[k] = start + i - 1])])
              ELSE a.S
    IN [S |-> S1, cells |-> f, al |-> Len(S.allocs) + 1]

SafeTT(S, h, p0) ==
    LET t == S.live[h]
        p == EffPerm(t, p0)
    IN IF ~IsPerm(p, Len(t.shape)) THEN Free(S)
       ELSE LET c  == FreshCopy(S, t)
                id == ScalarEquiv(t.shape) \/ IsIdent(p)
                n  == [shape |-> IF id THEN t.shape ELSE TransShape(t.shape, p),
                       cells |-> IF id THEN c.cells ELSE TransCells(t.shape, c.cells, p),
                       view  |-> FALSE,
                       (* np: the saved arrangement is the SOURCE's current one, which is itself lazily permuted
                          when the source has a pending transpose (named for a listed finding) *)
                       pend  |-> <<[shape |-> t.shape, cells |-> c.cells, perm |-> p, np |-> t.pend # NoPend]>>,
                       ord   |-> t.ord, al |-> c.al, wide |-> t.wide \/ ~Contiguous(t.cells)]
            IN OkH(AddLive(c.S, n), NewH(S))

RollAxisT(S, h, axis, start, safe) ==
    LET t == S.live[h]
        r == Len(t.shape)
    IN IF ~(axis >= 0 /\ axis < r /\ start >= 0 /\ start <= r) THEN Free(S)
       ELSE LET st == IF axis < start THEN start - 1 ELSE start
            IN IF axis = st THEN OkH(S, h)
               ELSE LET p == RollPerm(r, axis, start)
                    IN IF safe THEN SafeTT(S, h, p)
                       ELSE LET o == TT(S, h, p) IN Out(o.S, Res("ok", FALSE, h, <<>>, o.res.x))

(***************************************************************************)
(* Copies                                                                  *)
(***************************************************************************)
(* a materialised copy is contiguous in the logical order *)
FreshCopyRowMajor(S, t) ==
    LET a  == AllocL(S, ValuesOf(S, t.cells), "l")
        f  == [k \in 1..Len(t.cells) |-> a.start + k - 1]
        S1 == IF IsMaskedT(S, t) THEN SetMaskAll(a.S, Len(S.allocs) + 1, MaskOf(S, t)) ELSE a.S
    IN [S |-> S1, cells |-> f, al |-> Len(S.allocs) + 1]

MaterializeT(S, h) ==
    LET t == S.live[h]
    IN IF ~t.view /\ t.pend = NoPend THEN OkH(S, h)
       ELSE LET c == FreshCopyRowMajor(S, t)
            IN OkH(AddLive(c.S, [shape |-> t.shape, cells |-> c.cells, view |-> FALSE,
                                 pend |-> NoPend, ord |-> t.ord, al |-> c.al, wide |-> FALSE]), NewH(S))

CloneT(S, h) ==
    LET t  == S.live[h]
        c  == FreshCopy(S, t)
        (* the clone keeps a pending transpose: undoing it restores the clone's own original arrangement *)
        mp(cs) == [k \in 1..Len(cs) |-> c.cells[CHOOSE j \in 1..Len(t.cells) : t.cells[j] = cs[k]]]
        pd == IF t.pend = NoPend THEN NoPend
              ELSE <<[shape |-> t.pend[1].shape, cells |-> mp(t.pend[1].cells), perm |-> <<>>, np |-> t.pend[1].np]>>   \* a clone does not remember the axes
    IN OkH(AddLive(c.S, [shape |-> t.shape, cells |-> c.cells, view |-> FALSE,
                         pend |-> pd, ord |-> t.ord, al |-> c.al, wide |-> t.wide \/ ~Contiguous(t.cells)]), NewH(S))

(* ShallowClone: a second tensor object over the SAME storage with the same access pattern,
   pending transposition and mask; its own shape/stride record (later view operations on one do
   not move the other), every write through either is a write to the shared cells *)
ShallowCloneT(S, h) == OkH(AddLive(S, S.live[h]), NewH(S))

(* ShallowReturn: a shallow clone is made and handed straight back to the library's pools.
   Nothing observable changes: in particular the operand keeps its pending transposition and
   can still undo it (the clone must own its copy of the saved access pattern and axes) *)
ShallowReturnT(S, h) == OkH(S, 0)

(* Copy(dst, src): element k of dst := element k of src (logical row-major) *)
CopyT(S, d, s) ==
    LET td == S.live[d] ts == S.live[s]
    IN IF Len(td.cells) # Len(ts.cells) THEN Free(S)
       ELSE Out(WriteCells(S, td.cells, ValuesOf(S, ts.cells)), Res("ok", TRUE, 0, <<>>, <<>>))

(***************************************************************************)
(* Whole-tensor writes                                                     *)
(***************************************************************************)
MemsetT(S, h, v) ==
    LET t == S.live[h]
    IN OkH(WriteCells(S, t.cells, [k \in 1..Len(t.cells) |-> v]), 0)

ZeroT(S, h) == MemsetT(S, h, ZeroV)

(* in-place unary / binary-with-scalar (the unsafe option): only the tensor's own cells change *)
UnsafeUnT(S, h, f) ==
    LET t == S.live[h]
    IN Out(WriteCells(S, t.cells, [k \in 1..Len(t.cells) |-> <<"un", f, S.heap[t.cells[k]]>>]),
           Res("ok", TRUE, h, <<>>, <<>>))
UnsafeBinKT(S, h, f, v) ==
    LET t == S.live[h]
    IN Out(WriteCells(S, t.cells, [k \in 1..Len(t.cells) |-> <<"bin", f, S.heap[t.cells[k]], v>>]),
           Res("ok", TRUE, h, <<>>, <<>>))

(* SetAt over every coordinate: element k := constant k *)
SetSweepT(S, h) ==
    LET t == S.live[h]
    IN OkH(WriteCells(S, t.cells, [k \in 1..Len(t.cells) |-> K(k)]), 0)

(* in-place binary with a tensor operand (the unsafe option): a[c] := f(a[c], b[c]) *)
UnsafeBinTT(S, h, f, o) ==
    LET t == S.live[h] u == S.live[o]
    IN IF t.shape # u.shape THEN Free(S)
       ELSE Out(WriteCells(S, t.cells, [k \in 1..Len(t.cells) |-> <<"bin", f, S.heap[t.cells[k]], S.heap[u.cells[k]]>>]),
                Res("ok", TRUE, h, <<>>, <<>>))

(* the CopyTo method: like Copy(dst := other, src := t); documented to refuse views *)
CopyToT(S, s, d) ==
    LET td == S.live[d] ts == S.live[s]
        (* documented as a copy of the UNDERLYING data that ignores the destination's metadata:
           storage sequence to storage sequence *)
        Sto(t) == IF t.pend # NoPend THEN FlatOrder(t.pend[1].shape, t.pend[1].cells, t.ord)
                  ELSE FlatOrder(t.shape, t.cells, t.ord)
    IN IF d = s THEN OkH(S, 0)
       ELSE IF Len(td.cells) # Len(ts.cells) THEN Err(S)
       ELSE Out(WriteCells(S, Sto(td), ValuesOf(S, Sto(ts))),
                Res("ok", td.view \/ ts.view, 0, <<>>, <<>>))

(* conversions to native Go slices / gonum matrices: the same elements in logical order *)
ExportT(S, h, kind) ==
    LET t == S.live[h]
    IN Out(S, Res("ok", TRUE, 0, <<>>, [cells |-> t.cells, shape |-> t.shape]))

(***************************************************************************)
(* Reshape: equal size only; may refuse a view; follows the tensor's own   *)
(* data order; never changes an element                                    *)
(***************************************************************************)
ReshapeT(S, h, nsh) ==
    LET t == S.live[h]
    IN IF Prod(nsh) # Prod(t.shape) THEN Err(S)
       ELSE LET S1 == PhysT(S, h)
                t1 == S1.live[h]
                fl == FlatOrder(t1.shape, t1.cells, t1.ord)
            IN Tagged(Out(SetLive(S1, h, [t1 EXCEPT !.shape = nsh, !.cells = FromFlat(nsh, fl, t1.ord)]),
                          Res("ok", t.view, 0, <<>>, <<>>)),
                      PhysTags(S, h) \cup (IF t.wide /\ ~t.view THEN {"strided-result"} ELSE {}))

(***************************************************************************)
(* Elementwise operations and their option modes.                          *)
(*   vals   the delivered values (terms) in logical row-major order        *)
(*   mode   "safe"   a fresh tensor, every operand unchanged               *)
(*          "unsafe" overwrite and return tensor u (the first tensor       *)
(*                   operand)                                              *)
(*          "reuse"  write into tensor d and return it                     *)
(*          "incr"   add into tensor d and return it                       *)
(* In every mode the delivered values are the safe-mode values and no      *)
(* tensor other than the designated destination changes.                   *)
(***************************************************************************)
FreshResult(S, shape, ord, vals, et) ==
    LET a == AllocL(S, vals, "l")
        t == [shape |-> shape, cells |-> [k \in 1..Len(vals) |-> a.start + k - 1], view |-> FALSE,
              pend |-> NoPend, ord |-> ord, al |-> Len(S.allocs) + 1, wide |-> FALSE]
    IN OkH(AddLive(SetET(a.S, et), t), NewH(S))

(* a result that the library builds from a clone of operand tu: same storage arrangement as tu *)
FreshResultLike(S, tu, shape, ord, vals) ==
    LET start == Len(S.heap) + 1
        f == [k \in 1..Len(vals) |-> start + StoRank(tu, tu.cells[k])]
        init == [i \in 1..Len(vals) |-> vals[CHOOSE k \in 1..Len(vals) : f[k] = start + i - 1]]
        a == AllocL(S, init, "l")
        t == [shape |-> shape, cells |-> f, view |-> FALSE, pend |-> NoPend, ord |-> ord,
              al |-> Len(S.allocs) + 1, wide |-> tu.wide \/ ~Contiguous(tu.cells)]
    IN OkH(AddLive(a.S, t), NewH(S))

(* the result of an operation on masked operands is masked where any operand is *)
WithResultMask(o, ms) ==
    IF ms = <<>> \/ o.res.st # "ok" \/ o.res.h = 0 THEN o
    ELSE (* whether the result carries a mask is not demanded: `mopen` leaves the mask itself unobserved and
            only excludes the positions masked in an operand from the value comparison *)
         Out([SetMaskAll(o.S, o.S.live[o.res.h].al, ms) EXCEPT !.allocs[o.S.live[o.res.h].al].mopen = TRUE], o.res)
OperandMask(S, t, u) ==
    IF ~IsMaskedT(S, t) /\ ~IsMaskedT(S, u) THEN <<>>
    ELSE [k \in 1..Len(t.cells) |-> Or01(MaskBit(S, t.cells[k]), MaskBit(S, u.cells[k]))]

(* The fresh result of a safe arithmetic / unary operation is built by the library as a clone of its
   tensor operand u and therefore keeps u's pending lazy transpose (UT on the result gives the result
   for the un-transposed operand).  Deliberate modelling of what the code does; results with an
   element type of their own (comparisons) and all other operations start without one. *)
InheritPend(S, o, u, et) ==
    IF u = 0 \/ et # "" \/ o.res.st # "ok" \/ o.res.h = 0 THEN o
    ELSE LET t == S.live[u]
             r == o.S.live[o.res.h]
         IN IF t.pend = NoPend \/ Len(t.cells) # Len(r.cells) THEN o
            ELSE LET mp(cs) == [k \in 1..Len(cs) |-> r.cells[CHOOSE j \in 1..Len(t.cells) : t.cells[j] = cs[k]]]
                 IN Out(SetLive(o.S, o.res.h, [r EXCEPT !.pend = <<[shape |-> t.pend[1].shape, cells |-> mp(t.pend[1].cells),
                                                                   perm |-> <<>>, np |-> t.pend[1].np]>>]), o.res)

Deliver(S, shape, ord, vals, mode, d, u, et, mayRefuse) ==
    CASE mode = "safe"   -> LET o == IF et = "" /\ u # 0 /\ Len(S.live[u].cells) = Len(vals)
                                     THEN FreshResultLike(S, S.live[u], shape, ord, vals)
                                     ELSE FreshResult(S, shape, ord, vals, IF et = "same" THEN "" ELSE et)
                            IN InheritPend(S, Out(o.S, [o.res EXCEPT !.ref = mayRefuse]), u, et)
      [] mode = "unsafe" -> Out(WriteCells(S, S.live[u].cells, vals), Res("ok", mayRefuse, u, <<>>, <<>>))
      [] mode = "reuse"  ->
            LET D == S.live[d]
            IN IF Len(D.cells) # Len(vals) THEN Err(S)
               ELSE IF D.shape # shape
                    THEN (* a reuse tensor of the right size but another shape is re-laid-out by the library (documented):
                            it becomes a plain tensor of the result's shape over its own storage, a pending transposition
                            is dropped.  Only for tensors that own their storage; a view is left open *)
                         IF D.view \/ ReshapeReuseOpen THEN Free(S)
                         ELSE LET cs == SortedSeq(Range(D.cells))
                                  S1 == SetLive(S, d, [D EXCEPT !.shape = shape, !.cells = cs, !.pend = NoPend, !.wide = FALSE])
                              IN Out(WriteCells(S1, cs, vals), Res("ok", TRUE, d, <<>>, <<>>))
               ELSE Out(WriteCells(S, D.cells, vals),
                        Res("ok", mayRefuse \/ D.view \/ D.pend # NoPend, d, <<>>, <<>>))
      [] mode = "incr"   ->
            LET D == S.live[d]
            IN IF Len(D.cells) # Len(vals) THEN Err(S)
               ELSE IF D.shape # shape THEN Free(S)
               ELSE Out(WriteCells(S, D.cells, [k \in 1..Len(vals) |-> <<"bin", "add", S.heap[D.cells[k]], vals[k]>>]),
                        Res("ok", mayRefuse \/ D.view \/ D.pend # NoPend, d, <<>>, <<>>))

(* binary arithmetic f in operand order.  form "TT": tensor h, tensor b; "TS": tensor h, scalar K(b);
   "ST": scalar K(b), tensor h; "TZ" / "ZT": the scalar is the rank-0 tensor b *)
BinVals(S, h, f, form, b, head) ==
    LET t == S.live[h]
        A(k) == S.heap[t.cells[k]]
    IN [k \in 1..Len(t.cells) |->
          CASE form = "TT" -> <<head, f, A(k), S.heap[S.live[b].cells[k]]>>
            [] form = "TS" -> <<head, f, A(k), K(b)>>
            [] form = "ST" -> <<head, f, K(b), A(k)>>
            (* "TZ" / "ZT": the scalar is handed over as a rank-0 TENSOR b (which must come out of the call unchanged) *)
            [] form = "TZ" -> <<head, f, A(k), S.heap[S.live[b].cells[1]]>>
            [] form = "ZT" -> <<head, f, S.heap[S.live[b].cells[1]], A(k)>>]

ArithT(S, h, f, form, b, mode, d) ==
    LET t == S.live[h]
    IN IF form = "TT" /\ S.live[b].shape # t.shape THEN Err(S)
       ELSE LET o == Deliver(S, t.shape, t.ord, BinVals(S, h, f, form, b, "bin"), mode, d, h,
                             IF f \in {"min", "max"} THEN "same" ELSE "",     \* min/max allocate a new result, no clone
                             (* an aliasing reuse may be refused; so may a scalar handed over as a tensor *)
                             form \in {"TZ", "ZT"} \/ (mode = "reuse" /\ (d = h \/ (form = "TT" /\ d = b))))
            IN IF mode = "safe" THEN WithResultMask(o, OperandMask(S, t, IF form = "TT" THEN S.live[b] ELSE t)) ELSE o

(* comparisons: result kind "bool" (default), "same" (1/0 of the operand type); unsafe is in place and
   therefore of the operand type *)
CmpT(S, h, f, form, b, mode, d, same) ==
    LET t == S.live[h]
        cv == BinVals(S, h, f, form, b, "cmp")
        asSame == same \/ mode = "unsafe"
        vals == IF asSame THEN [k \in 1..Len(cv) |-> <<"b", cv[k]>>] ELSE cv
    IN IF form = "TT" /\ S.live[b].shape # t.shape THEN Err(S)
       ELSE Deliver(S, t.shape, t.ord, vals, mode, d, h, IF asSame THEN "" ELSE "bool",
                    form \in {"TZ", "ZT"} \/ (mode = "reuse" /\ (d = h \/ (form = "TT" /\ d = b))))

(* unary functions; "clamp" takes the two constants K(lo), K(hi) *)
UnaryT(S, h, f, mode, d, lo, hi) ==
    LET t == S.live[h]
        vals == [k \in 1..Len(t.cells) |->
                   IF f = "clamp" THEN <<"clamp", S.heap[t.cells[k]], K(lo), K(hi)>>
                   ELSE <<"un", f, S.heap[t.cells[k]]>>]
        o == Deliver(S, t.shape, t.ord, vals, mode, d, h, "", mode = "reuse" /\ d = h)
    IN IF mode = "safe" THEN WithResultMask(o, OperandMask(S, t, t)) ELSE o

(* fused multiply-add: Y := A * X + Y (X a tensor or the scalar K(x)); returns Y *)
FMAT(S, a, form, x, y) ==
    LET ta == S.live[a] ty == S.live[y]
        xv(k) == IF form = "T" THEN S.heap[S.live[x].cells[k]] ELSE K(x)
    IN IF ty.shape # ta.shape \/ (form = "T" /\ S.live[x].shape # ta.shape) THEN Free(S)
       ELSE Out(WriteCells(S, ty.cells, [k \in 1..Len(ty.cells) |->
                   <<"bin", "add", <<"bin", "mul", S.heap[ta.cells[k]], xv(k)>>, S.heap[ty.cells[k]]>>]),
                Res("ok", TRUE, y, <<>>, <<>>))

(***************************************************************************)
(* Masked tensors                                                          *)
(***************************************************************************)
(* the caller's mask slice is parallel to the caller's backing: bits[i] belongs to storage position i *)
NewMaskedOrdT(S, shape, bits, ctor) ==
    LET o == NewT(S, shape, ctor, "")
    IN Out(SetMaskAll(o.S, Len(o.S.allocs), [i \in 1..Len(bits) |-> IF bits[i] = 1 THEN MT ELSE MF]), o.res)
NewMaskedT(S, shape, bits) == NewMaskedOrdT(S, shape, bits, "C")

(* predicates: "eq","ne","gt","ge","lt","le" against K(x); "inside" (x <= a <= y), "outside" against K(x), K(y) *)
PredTerm(pred, v, x, y) ==
    CASE pred = "eq" -> <<"cmp", "eq", v, K(x)>>
      [] pred = "ne" -> <<"cmp", "ne", v, K(x)>>
      [] pred = "gt" -> <<"cmp", "gt", v, K(x)>>
      [] pred = "ge" -> <<"cmp", "gte", v, K(x)>>
      [] pred = "lt" -> <<"cmp", "lt", v, K(x)>>
      [] pred = "le" -> <<"cmp", "lte", v, K(x)>>
      [] pred = "inside"  -> <<"and", <<"cmp", "gte", v, K(x)>>, <<"cmp", "lte", v, K(y)>>>>
      [] pred = "outside" -> <<"or", <<"cmp", "lt", v, K(x)>>, <<"cmp", "gt", v, K(y)>>>>

(* circumstance of a listed finding: the mask is written through a view whose elements are not contiguous in storage *)
MaskWriteTags(t) == IF t.view /\ (~Contiguous(t.cells) \/ t.wide) THEN {"mask-write-noncontig-view"} ELSE {}

(* a soft mask is replaced by the predicate, a hard mask only grows *)
MaskPredT(S, h, pred, x, y) ==
    LET t  == S.live[h]
        a  == t.al
        S0 == IF IsMaskedT(S, t) THEN S ELSE SetMaskAll(S, a, [i \in 1..S.allocs[a].len |-> MF])
        soft == S.allocs[a].soft
        nm == [k \in 1..Len(t.cells) |->
                 LET p == PredTerm(pred, S.heap[t.cells[k]], x, y)
                 IN IF soft THEN p ELSE Or01(MaskBit(S0, t.cells[k]), p)]
    IN Tagged(OkH(WriteMask(S0, a, t.cells, nm), 0), MaskWriteTags(t))

SoftenT(S, h, soft) == OkH([S EXCEPT !.allocs[S.live[h].al].soft = soft], 0)
ResetMaskT(S, h) ==
    LET t == S.live[h] a == t.al
        S0 == IF IsMaskedT(S, t) THEN S ELSE SetMaskAll(S, a, [i \in 1..S.allocs[a].len |-> MF])
    IN Tagged(OkH(WriteMask(S0, a, t.cells, [k \in 1..Len(t.cells) |-> MF]), 0), MaskWriteTags(t))

(* Filled: a fresh tensor equal to the receiver with every masked element replaced by v *)
FilledT(S, h, v) ==
    LET t == S.live[h]
        m == MaskOf(S, t)
        vals == [k \in 1..Len(t.cells) |-> IF m[k] = MT THEN v ELSE S.heap[t.cells[k]]]
        o == FreshResult(S, t.shape, t.ord, vals, "")
    IN Out(IF IsMaskedT(S, t) THEN SetMaskAll(o.S, Len(o.S.allocs), m) ELSE o.S, o.res)

(* inspection of a mask of 0/1 bits in logical row-major order *)
CountOnes(m) == Cardinality({k \in 1..Len(m) : m[k] = 1})
Bits(ms) == [k \in 1..Len(ms) |-> IF ms[k] = MT THEN 1 ELSE 0]
RECURSIVE RunsFrom(_, _, _)
(* maximal runs [start, end) of value v in m, scanning from position i (0-based) *)
RunsFrom(m, v, i) ==
    IF i >= Len(m) THEN <<>>
    ELSE IF m[i + 1] # v THEN RunsFrom(m, v, i + 1)
    ELSE LET e == CHOOSE j \in (i + 1)..Len(m) : (\A q \in (i + 1)..j : m[q] = v) /\ (j = Len(m) \/ m[j + 1] # v)
         IN <<<<i, e>>>> \o RunsFrom(m, v, e)
Edges(m, v) == LET P == {k \in 1..Len(m) : m[k] = v}
               IN IF P = {} THEN <<-1, -1>> ELSE <<SetMin(P) - 1, SetMax(P) - 1>>

MaskInspectT(S, h) ==
    LET t == S.live[h]
        m == Bits(MaskOf(S, t))
        r == Len(t.shape)
        perAxis(ax) == LET osh == ReducedShape(t.shape, {ax})
                       IN [k \in 1..Prod(osh) |-> CountOnes(Fibre(t.shape, m, {ax}, k - 1))]
    IN Out(S, Res("ok", FALSE, 0, <<>>,
           [masked |-> IF IsMaskedT(S, t) THEN 1 ELSE 0,
            count |-> CountOnes(m), size |-> Len(m),
            axcount |-> [ax \in 1..r |-> perAxis(ax)],
            axlen |-> [ax \in 1..r |-> t.shape[ax]],
            mruns |-> RunsFrom(m, 1, 0), uruns |-> RunsFrom(m, 0, 0),
            medges |-> Edges(m, 1), uedges |-> Edges(m, 0),
            mask |-> m]))

(***************************************************************************)
(* Serialisation: encode then decode.  The wire value is abstract: the     *)
(* decoded tensor is a fresh tensor with the element type, shape and       *)
(* logical elements of the source (and its mask where the format carries   *)
(* one: gob; npy and csv write the fill value at masked positions;         *)
(* protobuf and flatbuffers have no mask field).  A format may refuse a    *)
(* tensor it cannot express.                                               *)
(***************************************************************************)
CarriesMask(fmt) == fmt = "gob"
WritesFill(fmt) == fmt \in {"npy", "csv"}      \* documented: masked values are replaced by the fill value
RoundTripT(S, h, fmt) ==
    LET t == S.live[h]
        m == MaskOf(S, t)
        masked == IsMaskedT(S, t)
        vals == [k \in 1..Len(t.cells) |->
                   IF masked /\ WritesFill(fmt) /\ m[k] = MT THEN <<"fill">> ELSE S.heap[t.cells[k]]]
        shp == IF fmt = "csv" /\ Len(t.shape) # 2 THEN <<1, 1>> ELSE t.shape
        o == FreshResult(S, shp, "C", vals, "")
        S1 == IF masked /\ CarriesMask(fmt) THEN SetMaskAll(o.S, Len(o.S.allocs), m) ELSE o.S
    IN IF fmt = "csv" /\ Len(t.shape) # 2 THEN Free(S)
       ELSE Out(S1, [o.res EXCEPT !.ref = TRUE])

(***************************************************************************)
(* Reductions.  axes: a sequence of distinct 0-based axes in any order.    *)
(* The value at an outer position is the left fold of the fibre's elements *)
(* in logical order; all axes (or none listed) reduce to a scalar.         *)
(***************************************************************************)
ValidAxes(axes, r) == /\ \A i \in 1..Len(axes) : axes[i] >= 0 /\ axes[i] < r
                      /\ \A i, j \in 1..Len(axes) : i # j => axes[i] # axes[j]

ReduceT(S, h, f, axes) ==
    LET t == S.live[h]
        r == Len(t.shape)
        A == IF axes = <<>> THEN 1..r ELSE {axes[i] + 1 : i \in 1..Len(axes)}
        osh == ReducedShape(t.shape, A)
        vals == [k \in 1..Prod(osh) |->
                   <<"fold", f, ValuesOf(S, Fibre(t.shape, t.cells, A, k - 1))>>]
    IN IF ~ValidAxes(axes, r) THEN Free(S)
       ELSE LET o == FreshResult(S, osh, "C", vals, "")
            IN Out(o.S, [o.res EXCEPT !.ref = TRUE])        \* an unsupported layout may be refused

(* arg-reductions: the first index of the extreme along the axis; axis -1: of the whole logical array *)
ArgT(S, h, f, axis) ==
    LET t == S.live[h]
        r == Len(t.shape)
        A == IF axis = -1 THEN 1..r ELSE {axis + 1}
        osh == ReducedShape(t.shape, A)
        masked == IsMaskedT(S, t)
        fib(k) == Fibre(t.shape, t.cells, A, k - 1)
        (* a masked tensor: masked elements do not take part; the index is still the position along the axis.
           Only constant masks are given a meaning here; a fibre that is masked entirely has no extreme *)
        keep(k) == {j \in 1..Len(fib(k)) : MaskBit(S, fib(k)[j]) = MF}
        constMask == \A c \in Range(t.cells) : MaskBit(S, c) \in {MT, MF}
        vals == [k \in 1..Prod(osh) |->
                   IF ~masked THEN <<"arg", f, ValuesOf(S, fib(k))>>
                   ELSE LET ps == SortedSeq(keep(k))
                        IN <<"argm", f, [i \in 1..Len(ps) |-> S.heap[fib(k)[ps[i]]]], [i \in 1..Len(ps) |-> ps[i] - 1]>>]
    IN IF axis < -1 \/ axis >= r THEN Free(S)
       ELSE IF masked /\ (~constMask \/ \E k \in 1..Prod(osh) : keep(k) = {}) THEN Free(S)
       ELSE LET o == FreshResult(S, osh, "C", vals, "int")
                S1 == IF masked THEN [o.S EXCEPT !.allocs[Len(o.S.allocs)].mopen = TRUE] ELSE o.S   \* whether the result carries a mask is not stated
            IN Out(S1, [o.res EXCEPT !.ref = TRUE])

(***************************************************************************)
(* Products: every element of the result is a sum of products over the     *)
(* contracted indices.  axesA / axesB: the contracted axes (0-based), in   *)
(* pairs.  Result shape: free axes of a, then free axes of b.              *)
(***************************************************************************)
FreeAxes(r, ax) == LET used == {ax[i] + 1 : i \in 1..Len(ax)} IN SortedSeq((1..r) \ used)
ShapeAt(shape, axs) == [i \in 1..Len(axs) |-> shape[axs[i]]]

ContractCells(S, ta, tb, axesA, axesB) ==
    LET ra == Len(ta.shape) rb == Len(tb.shape)
        fa == FreeAxes(ra, axesA) fb == FreeAxes(rb, axesB)
        fsa == ShapeAt(ta.shape, fa) fsb == ShapeAt(tb.shape, fb)
        csh == [i \in 1..Len(axesA) |-> ta.shape[axesA[i] + 1]]       \* contracted extents
        osh == fsa \o fsb
        coordA(oc, cc) == [a \in 1..ra |->
                            IF \E i \in 1..Len(fa) : fa[i] = a THEN oc[CHOOSE i \in 1..Len(fa) : fa[i] = a]
                            ELSE cc[CHOOSE i \in 1..Len(axesA) : axesA[i] + 1 = a]]
        coordB(oc, cc) == [b \in 1..rb |->
                            IF \E i \in 1..Len(fb) : fb[i] = b THEN oc[Len(fa) + (CHOOSE i \in 1..Len(fb) : fb[i] = b)]
                            ELSE cc[CHOOSE i \in 1..Len(axesB) : axesB[i] + 1 = b]]
        elem(k) == LET oc == CoordOf(k, osh)
                   IN <<"dot", [j \in 1..Prod(csh) |->
                          LET cc == CoordOf(j - 1, csh)
                          IN <<S.heap[ta.cells[RankOf(coordA(oc, cc), ta.shape) + 1]],
                               S.heap[tb.cells[RankOf(coordB(oc, cc), tb.shape) + 1]]>>]>>
    IN [shape |-> osh, vals |-> [k \in 1..Prod(osh) |-> elem(k - 1)]]

ContractOK(ta, tb, axesA, axesB) ==
    /\ Len(axesA) = Len(axesB)
    /\ ValidAxes(axesA, Len(ta.shape)) /\ ValidAxes(axesB, Len(tb.shape))
    /\ \A i \in 1..Len(axesA) : ta.shape[axesA[i] + 1] = tb.shape[axesB[i] + 1]

(* view a vector form (n), (n,1), (1,n) as the rank-1 vector of its elements *)
IsVecShape(s) == Len(s) = 1 \/ (Len(s) = 2 /\ (s[1] = 1 \/ s[2] = 1))
AsVec(t) == [shape |-> <<Len(t.cells)>>, cells |-> t.cells]

(* kind: "MatMul", "MatVecMul", "Outer", "TensorMul" (with axes), "Dot" (dispatching), "Inner" and "Trace"
   (these two return a value, not a tensor) *)
ProductSpec(S, kind, a, b, axesA, axesB) ==
    LET ta == S.live[a] tb == S.live[b]
        ra == Len(ta.shape) rb == Len(tb.shape)
        bad == [ok |-> FALSE, shape |-> <<>>, vals |-> <<>>]
        mk(c, shp) == [ok |-> TRUE, shape |-> shp, vals |-> c.vals]
    IN CASE kind = "MatMul" ->
              IF ra = 2 /\ rb = 2 /\ ta.shape[2] = tb.shape[1]
              THEN LET c == ContractCells(S, ta, tb, <<1>>, <<0>>) IN mk(c, c.shape) ELSE bad
         [] kind = "MatVecMul" ->
              IF ra = 2 /\ IsVecShape(tb.shape) /\ ta.shape[2] = Len(tb.cells)
              THEN LET c == ContractCells(S, ta, AsVec(tb), <<1>>, <<0>>) IN mk(c, c.shape) ELSE bad
         [] kind = "Outer" ->
              IF IsVecShape(ta.shape) /\ IsVecShape(tb.shape)
              THEN LET c == ContractCells(S, AsVec(ta), AsVec(tb), <<>>, <<>>) IN mk(c, c.shape) ELSE bad
         [] kind = "Inner" ->
              IF IsVecShape(ta.shape) /\ IsVecShape(tb.shape) /\ Len(ta.cells) = Len(tb.cells)
              THEN LET c == ContractCells(S, AsVec(ta), AsVec(tb), <<0>>, <<0>>) IN mk(c, <<>>) ELSE bad
         [] kind = "TensorMul" ->
              IF ContractOK(ta, tb, axesA, axesB)
              THEN LET c == ContractCells(S, ta, tb, axesA, axesB)
                   IN mk(c, IF c.shape = <<>> THEN <<1>> ELSE c.shape) ELSE bad
         [] kind = "Dot" ->
              (* the documented dispatch *)
              IF IsVecShape(ta.shape) /\ IsVecShape(tb.shape) THEN
                   IF Len(ta.cells) = Len(tb.cells)
                   THEN LET c == ContractCells(S, AsVec(ta), AsVec(tb), <<0>>, <<0>>) IN mk(c, <<>>) ELSE bad
              ELSE IF ra = 2 /\ IsVecShape(tb.shape) THEN
                   IF ta.shape[2] = Len(tb.cells)
                   THEN LET c == ContractCells(S, ta, AsVec(tb), <<1>>, <<0>>) IN mk(c, c.shape) ELSE bad
              ELSE IF IsVecShape(ta.shape) /\ rb = 2 THEN
                   IF tb.shape[1] = Len(ta.cells)
                   THEN LET c == ContractCells(S, AsVec(ta), tb, <<0>>, <<0>>) IN mk(c, c.shape) ELSE bad
              ELSE IF ra = 2 /\ rb = 2 THEN
                   IF ta.shape[2] = tb.shape[1]
                   THEN LET c == ContractCells(S, ta, tb, <<1>>, <<0>>) IN mk(c, c.shape) ELSE bad
              ELSE IF ra >= 1 /\ rb >= 2 /\ ta.shape[ra] = tb.shape[rb - 1]
                   THEN LET c == ContractCells(S, ta, tb, <<ra - 1>>, <<rb - 2>>) IN mk(c, c.shape) ELSE bad

ProductT(S, kind, a, b, axesA, axesB, mode, d) ==
    LET p == ProductSpec(S, kind, a, b, axesA, axesB)
    IN IF ~p.ok THEN Out(S, Res("free", FALSE, 0, <<>>, <<>>))   \* operand shapes do not fit: left to the library (it must not compute)
       ELSE IF kind = "Inner" THEN Out(S, Res("ok", TRUE, 0, p.vals[1], <<>>))
       ELSE Deliver(S, p.shape, "C", p.vals, mode, d, 0, "", TRUE)

TraceT(S, h) ==
    LET t == S.live[h]
    IN IF Len(t.shape) # 2 THEN Free(S)
       ELSE LET n == Min2(t.shape[1], t.shape[2])
            IN Out(S, Res("ok", TRUE, 0, <<"fold", "add", [i \in 1..n |-> S.heap[t.cells[RankOf(<<i - 1, i - 1>>, t.shape) + 1]]]>>, <<>>))

(***************************************************************************)
(* Assembly: pure copies of cells into a fresh tensor (NumPy placement).   *)
(***************************************************************************)
(* the source (operand index, coordinate) of result coordinate c when concatenating shapes shs along axis ax (1-based) *)
RECURSIVE ConcatSrc(_, _, _, _)
ConcatSrc(shs, ax, c, i) ==
    IF c[ax] < shs[i][ax] THEN <<i, c>>
    ELSE ConcatSrc(shs, ax, [c EXCEPT ![ax] = @ - shs[i][ax]], i + 1)

ConcatFits(shs, ax) ==
    /\ \A i \in 1..Len(shs) : Len(shs[i]) = Len(shs[1])
    /\ ax >= 1 /\ ax <= Len(shs[1])
    /\ \A i \in 1..Len(shs) : \A d \in 1..Len(shs[1]) : d # ax => shs[i][d] = shs[1][d]

ConcatT(S, hs, axis) ==
    LET ts  == [i \in 1..Len(hs) |-> S.live[hs[i]]]
        shs == [i \in 1..Len(hs) |-> ts[i].shape]
        ax  == axis + 1
    IN IF ~ConcatFits(shs, ax) THEN Err(S)
       ELSE LET osh == [shs[1] EXCEPT ![ax] = SumSeq([i \in 1..Len(shs) |-> shs[i][ax]])]
                vals == [k \in 1..Prod(osh) |->
                           LET sc == ConcatSrc(shs, ax, CoordOf(k - 1, osh), 1)
                           IN S.heap[ts[sc[1]].cells[RankOf(sc[2], shs[sc[1]]) + 1]]]
                o == FreshResult(S, osh, "C", vals, "")
            IN Out(o.S, [o.res EXCEPT !.ref = TRUE])

StackT(S, hs, axis) ==
    LET ts  == [i \in 1..Len(hs) |-> S.live[hs[i]]]
        sh  == ts[1].shape
        ax  == axis + 1
    IN IF (\E i \in 1..Len(hs) : ts[i].shape # sh) \/ ax < 1 \/ ax > Len(sh) + 1 THEN Err(S)
       ELSE LET osh == InsertAt(sh, ax, Len(hs))
                vals == [k \in 1..Prod(osh) |->
                           LET c == CoordOf(k - 1, osh)
                           IN S.heap[ts[c[ax] + 1].cells[RankOf(RemoveAt(c, ax), sh) + 1]]]
                o == FreshResult(S, osh, "C", vals, "")
            IN Out(o.S, [o.res EXCEPT !.ref = TRUE])

(* repeat along axis (0-based; -1: flatten first); reps: one count (broadcast) or one per element of the axis *)
RECURSIVE RepSrc(_, _, _)
RepSrc(reps, j, i) == IF j < reps[i] THEN i - 1 ELSE RepSrc(reps, j - reps[i], i + 1)

RepeatT(S, h, axis, reps0, mode, d) ==
    LET t0  == S.live[h]
        t   == IF axis = -1 THEN [shape |-> <<Len(t0.cells)>>, cells |-> t0.cells] ELSE [shape |-> t0.shape, cells |-> t0.cells]
        ax  == IF axis = -1 THEN 1 ELSE axis + 1
    IN IF ax < 1 \/ ax > Len(t.shape) THEN Free(S)
       ELSE LET n    == t.shape[ax]
                reps == IF Len(reps0) = 1 THEN [i \in 1..n |-> reps0[1]] ELSE reps0
            IN IF Len(reps) # n THEN Err(S)
               ELSE IF SumSeq(reps) = 0 THEN Free(S)         \* an empty result: the library has no empty tensors
               ELSE LET osh  == [t.shape EXCEPT ![ax] = SumSeq(reps)]
                        vals == [k \in 1..Prod(osh) |->
                                   LET c == CoordOf(k - 1, osh)
                                   IN S.heap[t.cells[RankOf([c EXCEPT ![ax] = RepSrc(reps, c[ax], 1)], t.shape) + 1]]]
                    IN Deliver(S, osh, "C", vals, mode, d, 0, "", TRUE)

(***************************************************************************)
(* The transition function.  op = [k, h, a] : kind, main handle, arguments *)
(***************************************************************************)
Apply(S, op) ==
    CASE op.k = "New"         -> NewT(S, op.a[1], op.a[2], IF Len(op.a) >= 3 THEN op.a[3] ELSE "")
      [] op.k = "At"          -> AtT(S, op.h, op.a)
      [] op.k = "SetAt"       -> SetAtT(S, op.h, op.a[1], K(op.a[2]))
      [] op.k = "Slice"       -> SliceT(S, op.h, op.a)
      [] op.k = "T"           -> TT(S, op.h, op.a)
      [] op.k = "UT"          -> OkH(UTT(S, op.h), 0)
      [] op.k = "Transpose"   -> TransposeT(S, op.h)
      [] op.k = "SafeT"       -> SafeTT(S, op.h, op.a)
      [] op.k = "RollAxis"    -> RollAxisT(S, op.h, op.a[1], op.a[2], op.a[3] = 1)
      [] op.k = "Materialize" -> MaterializeT(S, op.h)
      [] op.k = "Clone"       -> CloneT(S, op.h)
      [] op.k = "ShallowClone" -> ShallowCloneT(S, op.h)
      [] op.k = "ShallowReturn" -> ShallowReturnT(S, op.h)
      [] op.k = "Copy"        -> CopyT(S, op.h, op.a[1])
      [] op.k = "Memset"      -> MemsetT(S, op.h, K(op.a[1]))
      [] op.k = "Zero"        -> ZeroT(S, op.h)
      [] op.k = "UnsafeUn"    -> UnsafeUnT(S, op.h, op.a[1])
      [] op.k = "UnsafeBinK"  -> UnsafeBinKT(S, op.h, op.a[1], K(op.a[2]))
      [] op.k = "Reshape"     -> ReshapeT(S, op.h, op.a)
      [] op.k = "SetSweep"    -> SetSweepT(S, op.h)
      [] op.k = "UnsafeBinT"  -> UnsafeBinTT(S, op.h, op.a[1], op.a[2])
      [] op.k = "CopyTo"      -> CopyToT(S, op.h, op.a[1])
      [] op.k = "Export"      -> ExportT(S, op.h, op.a[1])
      [] op.k = "Arith"       -> ArithT(S, op.h, op.a[1], op.a[2], op.a[3], op.a[4], op.a[5])
      [] op.k = "Cmp"         -> CmpT(S, op.h, op.a[1], op.a[2], op.a[3], op.a[4], op.a[5], op.a[6] = 1)
      [] op.k = "Unary"       -> UnaryT(S, op.h, op.a[1], op.a[2], op.a[3], op.a[4], op.a[5])
      [] op.k = "NewMasked"   -> NewMaskedT(S, op.a[1], op.a[2])
      [] op.k = "NewMaskedF"  -> NewMaskedOrdT(S, op.a[1], op.a[2], "F")
      [] op.k = "MaskPred"    -> MaskPredT(S, op.h, op.a[1], op.a[2], op.a[3])
      [] op.k = "Soften"      -> SoftenT(S, op.h, op.a[1] = 1)
      [] op.k = "ResetMask"   -> ResetMaskT(S, op.h)
      [] op.k = "Filled"      -> FilledT(S, op.h, IF op.a[1] = 0 THEN <<"fill">> ELSE K(op.a[1]))
      [] op.k = "MaskInspect" -> MaskInspectT(S, op.h)
      [] op.k = "RoundTrip"   -> RoundTripT(S, op.h, op.a[1])
      [] op.k = "FMA"         -> FMAT(S, op.h, op.a[1], op.a[2], op.a[3])
      [] op.k = "Reduce"      -> ReduceT(S, op.h, op.a[1], op.a[2])
      [] op.k = "Arg"         -> ArgT(S, op.h, op.a[1], op.a[2])
      [] op.k = "Product"     -> ProductT(S, op.a[1], op.h, op.a[2], op.a[3], op.a[4], op.a[5], op.a[6])
      [] op.k = "Trace"       -> TraceT(S, op.h)
      [] op.k = "Concat"      -> ConcatT(S, op.a[2], op.a[1])
      [] op.k = "Stack"       -> StackT(S, op.a[2], op.a[1])
      [] op.k = "Repeat"      -> RepeatT(S, op.h, op.a[1], op.a[2], op.a[3], op.a[4])

Op(k, h, a) == [k |-> k, h |-> h, a |-> a]

Do(op) ==
    LET o == Apply(St, op)
    IN /\ heap'   = o.S.heap
       /\ allocs' = o.S.allocs
       /\ live'   = o.S.live
       /\ steps'  = Append(steps, [op |-> op, res |-> o.res])

(* several calls in one step of the specification (a program prefix that builds the operands) *)
RECURSIVE RunOps(_, _, _)
RunOps(S, ops, acc) ==
    IF ops = <<>> THEN [S |-> S, steps |-> acc]
    ELSE LET o == Apply(S, Head(ops))
         IN IF o.res.st # "ok" THEN [S |-> o.S, steps |-> Append(acc, [op |-> Head(ops), res |-> o.res])]
            ELSE RunOps(o.S, Tail(ops), Append(acc, [op |-> Head(ops), res |-> o.res]))
DoAll(ops) ==
    LET r == RunOps(St, ops, steps)
    IN /\ heap' = r.S.heap /\ allocs' = r.S.allocs /\ live' = r.S.live /\ steps' = r.steps

Init == heap = <<>> /\ allocs = <<>> /\ live = <<>> /\ steps = <<>>

LastOK == steps = <<>> \/ steps[Len(steps)].res.st = "ok"

(***************************************************************************)
(* State invariants of the machine (the formal content of the             *)
(* by-construction clauses: TLC checks that the definitions above really  *)
(* have them on every reachable state of every configuration)             *)
(***************************************************************************)
TypeOK ==
    /\ \A h \in 1..Len(live) :
         LET t == live[h]
         IN /\ Len(t.cells) = Prod(t.shape)                    \* size = product of the shape (C13)
            /\ Injective(t.cells)                              \* distinct positions (C13)
            /\ \A k \in 1..Len(t.cells) : t.cells[k] \in 1..Len(heap)
            /\ t.al \in 1..Len(allocs)
            /\ LET a == allocs[t.al]                            \* in-bounds: inside its own allocation
               IN \A k \in 1..Len(t.cells) : t.cells[k] >= a.start /\ t.cells[k] < a.start + a.len
            /\ t.pend # NoPend =>
                 /\ Range(t.pend[1].cells) = Range(t.cells)     \* a lazy transpose is a permutation
                 /\ Prod(t.pend[1].shape) = Prod(t.shape)
    /\ \A i, j \in 1..Len(allocs) : i < j =>
         allocs[i].start + allocs[i].len <= allocs[j].start     \* allocations are disjoint

(* copies share no storage with anything that existed before them *)
CopiesDisjoint ==
    \A i, j \in 1..Len(live) :
        (live[i].al # live[j].al) => Range(live[i].cells) \cap Range(live[j].cells) = {}

=============================================================================
