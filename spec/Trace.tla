-------------------------------- MODULE Trace --------------------------------
(***************************************************************************)
(* Trace validation: executions recorded from the real library are checked *)
(* to be behaviours of the specification.                                  *)
(*                                                                         *)
(* The recorder (harness/cmd/record) runs random programs over a           *)
(* population of live tensors and logs, for EVERY public call at its       *)
(* return: the call (the very op record Apply takes), whether it returned  *)
(* an error, the handle it returned, and the observation of EVERY live     *)
(* tensor (shape, all elements through At) and of every caller-owned       *)
(* backing slice, plus whether any caller-owned argument slice has         *)
(* changed.  Values are small integers (palette Interp.CellVal), so the    *)
(* specification evaluates its value terms itself (Interp.tla).            *)
(*                                                                         *)
(* A line is accepted iff the logged outcome is the one Apply allows and   *)
(* the logged observation equals the specification's state - for ALL live  *)
(* tensors, which is what makes a corruption of a tensor other than the    *)
(* destination visible.  Several traces are separated by "reset" lines.    *)
(***************************************************************************)
EXTENDS Tensor, Interp, Json

CONSTANT TraceFile
Tr == ndJsonDeserialize(TraceFile)

VARIABLES l, ok, dead, pfree
tvars == <<heap, allocs, live, steps, l, ok, dead, pfree>>

(***************************************************************************)
(* Pool protocol (Level 2, from the hook events <<kind, size, id>>          *)
(* recorded between two lines): a slice that is in a free list must not be *)
(* returned again before it has been borrowed - the same backing array     *)
(* would be handed to two owners.                                          *)
(***************************************************************************)
RECURSIVE PoolRun(_, _, _)
(* events are <<kind, size, id>> with kind 0 = borrow, 1 = return; returns [free, bad] *)
PoolRun(free, evs, i) ==
    IF i > Len(evs) THEN [free |-> free, bad |-> 0]
    ELSE LET e == evs[i]
         IN IF e[1] = 0 THEN PoolRun(free \ {e[3]}, evs, i + 1)
            ELSE IF e[3] \in free THEN [free |-> free, bad |-> e[3]]      \* returned twice
            ELSE PoolRun(free \cup {e[3]}, evs, i + 1)

(* truth value of a mask entry (the constants, or predicate terms over element values) *)
RECURSIVE MEval(_)
MEval(m) == CASE m[1] = "t" -> 1
              [] m[1] = "f" -> 0
              [] m[1] = "or"  -> IF MEval(m[2]) = 1 \/ MEval(m[3]) = 1 THEN 1 ELSE 0
              [] m[1] = "and" -> IF MEval(m[2]) = 1 /\ MEval(m[3]) = 1 THEN 1 ELSE 0
              [] OTHER -> IEval(m)

(* the integer value of every cell and the truth value of every mask entry: terms do not grow along a trace *)
Normalize(S) == [S EXCEPT !.heap = [c \in 1..Len(S.heap) |-> <<"ix", IEval(S.heap[c])>>],
                          !.allocs = [a \in 1..Len(S.allocs) |->
                                        [S.allocs[a] EXCEPT !.mask = [i \in 1..Len(S.allocs[a].mask) |->
                                                                        IF MEval(S.allocs[a].mask[i]) = 1 THEN MT ELSE MF]]]]

(* the mask of a tensor as MaskAt reports it, per logical element (0 everywhere when the storage has no mask) *)
MaskBitsOfT(S, t) == [k \in 1..Len(t.cells) |-> MEval(MaskBit(S, t.cells[k]))]
MaskObsOK(S, ev, h) == S.allocs[S.live[h].al].mopen \/ ev.obs[h].mask = MaskBitsOfT(S, S.live[h])

ElemsOfT(S, t) == [k \in 1..Len(t.cells) |-> IEval(S.heap[t.cells[k]])]

ObsMatch(S, ev, dd) ==
    /\ Len(ev.obs) = Len(S.live)
    /\ \A h \in 1..Len(S.live) :
         h \in dd \/ (/\ ev.obs[h].shape = S.live[h].shape
                      /\ ev.obs[h].elems = ElemsOfT(S, S.live[h])
                      /\ MaskObsOK(S, ev, h))
    /\ \A a \in 1..Len(S.allocs) :
         S.allocs[a].kind = "b" =>
            ev.backs[a] = [i \in 1..S.allocs[a].len |-> IEval(S.heap[S.allocs[a].start + i - 1])]

FirstBad(S, ev, dd) ==
    IF Len(ev.obs) # Len(S.live) THEN <<"population", Len(ev.obs), Len(S.live)>>
    ELSE IF \E h \in 1..Len(S.live) : h \notin dd /\ ev.obs[h].shape # S.live[h].shape
         THEN LET h == CHOOSE h \in 1..Len(S.live) : h \notin dd /\ ev.obs[h].shape # S.live[h].shape
              IN <<"shape", h, ev.obs[h].shape, S.live[h].shape>>
    ELSE IF \E h \in 1..Len(S.live) : h \notin dd /\ ev.obs[h].elems # ElemsOfT(S, S.live[h])
         THEN LET h == CHOOSE h \in 1..Len(S.live) : h \notin dd /\ ev.obs[h].elems # ElemsOfT(S, S.live[h])
              IN <<"elems", h, ev.obs[h].elems, ElemsOfT(S, S.live[h])>>
    ELSE IF \E h \in 1..Len(S.live) : h \notin dd /\ ~MaskObsOK(S, ev, h)
         THEN LET h == CHOOSE h \in 1..Len(S.live) : h \notin dd /\ ~MaskObsOK(S, ev, h)
              IN <<"mask", h, ev.obs[h].mask, MaskBitsOfT(S, S.live[h])>>
    ELSE <<"backing">>

Empty == [heap |-> <<>>, allocs |-> <<>>, live |-> <<>>]

Step(ev) ==
    CASE ev.ev = "reset" ->
            /\ heap' = <<>> /\ allocs' = <<>> /\ live' = <<>> /\ dead' = {} /\ ok' = TRUE
      [] ev.ev = "return" ->       \* ReturnTensor(h): the handle is dead, nothing else may change
            /\ dead' = dead \cup {ev.op.h}
            /\ UNCHANGED <<heap, allocs, live>>
            /\ ok' = (IF ev.caller = 0 /\ ObsMatch(St, ev, dead \cup {ev.op.h}) THEN TRUE
                      ELSE PrintT(<<"MISMATCH", l, "after ReturnTensor", ev.caller, FirstBad(St, ev, dead \cup {ev.op.h})>>) /\ FALSE)
      [] ev.ev = "churn" ->        \* pool traffic of other users: no tensor may change
            /\ UNCHANGED <<heap, allocs, live, dead>>
            /\ ok' = (IF ev.caller = 0 /\ ObsMatch(St, ev, dead) THEN TRUE
                      ELSE PrintT(<<"MISMATCH", l, "after pool churn", ev.caller, FirstBad(St, ev, dead)>>) /\ FALSE)
      [] ev.ev = "op" ->
            LET o == Apply(St, ev.op)
                refused == o.res.st = "ok" /\ o.res.ref /\ ev.err = 1
                rejected == o.res.st = "err" /\ ev.err = 1
                S1 == IF refused \/ rejected THEN St ELSE Normalize(o.S)
                outcomeOK == \/ refused \/ rejected
                             \/ (o.res.st = "ok" /\ ev.err = 0 /\ (o.res.h = 0 \/ o.res.h = ev.ret))
                good == outcomeOK /\ ev.caller = 0 /\ ObsMatch(S1, ev, dead)
            IN /\ heap' = S1.heap /\ allocs' = S1.allocs /\ live' = S1.live /\ dead' = dead
               /\ ok' = (IF good THEN TRUE
                         ELSE PrintT(<<"MISMATCH", l, ev.op, [st |-> o.res.st, ref |-> o.res.ref, h |-> o.res.h, err |-> ev.err, ret |-> ev.ret, caller |-> ev.caller],
                                       IF outcomeOK /\ ev.caller = 0 THEN FirstBad(S1, ev, dead) ELSE <<"outcome">>>>) /\ FALSE)

TInit == heap = <<>> /\ allocs = <<>> /\ live = <<>> /\ steps = <<>> /\ l = 1 /\ ok = TRUE /\ dead = {} /\ pfree = {}
PoolStep(ev) ==
    LET r == PoolRun(pfree, ev.pool, 1)
    IN IF r.bad # 0 THEN PrintT(<<"MISMATCH", l, "pool: slice returned twice without being borrowed in between", r.bad>>) /\ FALSE
       ELSE pfree' = r.free
TNext == /\ l <= Len(Tr) /\ ok
         /\ Step(Tr[l])
         /\ PoolStep(Tr[l])
         /\ l' = l + 1
         /\ steps' = steps
TSpec == TInit /\ [][TNext]_tvars

TraceOK == ok
Consumed == IF l = Len(Tr) + 1 /\ ok THEN PrintT(<<"CONSUMED", Len(Tr)>>) ELSE TRUE
=============================================================================
