"""Orchestration core: run TLC on a configuration of the specification, collect the
behaviours it emits, replay them on the real library (rebuilt from /repo's working
tree), classify what the library does against known findings, write evidence."""
import json, os, re, shutil, subprocess, sys, tempfile, time, hashlib

VERIF = os.path.dirname(os.path.dirname(os.path.abspath(__file__)))
REPO = os.environ.get("VERIF_REPO", "/repo")
SPEC = os.path.join(VERIF, "spec")
HARNESS = os.path.join(VERIF, "harness")
# experiments on a deliberately changed tree (bin/seedrun, bin/seedall) write elsewhere: the committed evidence and
# replay files always describe /repo as it stands
_alt = os.environ.get("VERIF_ALT_OUT")
OUT = os.path.join(_alt, "out") if _alt else os.path.join(VERIF, "out")
EVID = os.path.join(_alt, "evidence") if _alt else os.path.join(VERIF, "evidence")
TLA_CP = "/opt/veriftools/tla/tla2tools.jar:/opt/veriftools/tla/CommunityModules-deps.jar"
NPROC = os.cpu_count() or 4

GOENV = dict(os.environ, GOFLAGS="-mod=mod", GOPROXY="off", GOSUMDB="off", GOTOOLCHAIN="local")


class Infra(Exception):
    """Infrastructure problem: exit 2, never a violation."""


def log(*a):
    print(*a, file=sys.stderr, flush=True)


class Scratch:
    def __init__(self):
        base = os.environ.get("VERIF_SCRATCH") or tempfile.gettempdir()
        self.dir = tempfile.mkdtemp(prefix="verif-", dir=base)

    def path(self, *p):
        return os.path.join(self.dir, *p)

    def cleanup(self):
        shutil.rmtree(self.dir, ignore_errors=True)


def tla_value(v):
    if isinstance(v, bool):
        return "TRUE" if v else "FALSE"
    if isinstance(v, int):
        return str(v)
    if isinstance(v, str):
        return v  # already TLA+ syntax
    if isinstance(v, (set, frozenset)):
        return "{" + ", ".join(sorted(tla_value(x) for x in v)) + "}"
    if isinstance(v, (list, tuple)):
        return "<<" + ", ".join(tla_value(x) for x in v) + ">>"
    raise ValueError(v)


def S(s):
    """a TLA+ string literal"""
    return '"%s"' % s


def write_cfg(path, spec="Spec", consts=None, invariants=(), properties=(), extra=""):
    with open(path, "w") as f:
        f.write("SPECIFICATION %s\n" % spec)
        if consts:
            f.write("CONSTANTS\n")
            for k, v in consts.items():
                f.write("  %s = %s\n" % (k, tla_value(v)))
        if invariants:
            f.write("INVARIANTS %s\n" % " ".join(invariants))
        if properties:
            f.write("PROPERTIES %s\n" % " ".join(properties))
        f.write("CHECK_DEADLOCK FALSE\n")
        f.write(extra)


class TLCResult:
    def __init__(self):
        self.generated = 0
        self.distinct = 0
        self.cases = 0
        self.depth = 0
        self.wall = 0.0
        self.log_tail = ""
        self.cases_path = None


def run_tlc(scr, module, cfg_path, cases_path, workers=None, timeout=1200, heap="6g", simulate=None, seed=None,
            extra_args=()):
    """Run TLC; lines `<<"CASE", "json">>` printed by the Emit invariant become one JSON case per line."""
    workers = workers or NPROC
    wd = scr.path("tlc-" + module + "-" + hashlib.md5(cases_path.encode()).hexdigest()[:6])
    os.makedirs(wd, exist_ok=True)
    for fn in os.listdir(SPEC):
        if fn.endswith(".tla"):
            shutil.copy(os.path.join(SPEC, fn), wd)
    shutil.copy(cfg_path, os.path.join(wd, module + ".cfg"))
    # (TLC unpacks its standard modules into java.io.tmpdir on every run: keep that inside the scratch directory)
    cmd = ["java", "-Djava.io.tmpdir=" + wd, "-Xmx" + heap, "-Xss64m", "-XX:+UseParallelGC", "-XX:ParallelGCThreads=4", "-cp", TLA_CP, "tlc2.TLC",
           "-workers", str(workers), "-metadir", os.path.join(wd, "md"), "-config", module + ".cfg"]
    if simulate:
        cmd += ["-simulate", simulate]
    if seed is not None:
        cmd += ["-seed", str(seed)]
    cmd += list(extra_args)
    cmd += [module + ".tla"]
    res = TLCResult()
    res.cases_path = cases_path
    t0 = time.time()
    tail = []
    env = dict(os.environ)
    env.pop("JAVA_TOOL_OPTIONS", None)
    try:
        p = subprocess.Popen(cmd, cwd=wd, stdout=subprocess.PIPE, stderr=subprocess.STDOUT, text=True, env=env)
    except OSError as e:
        raise Infra("cannot start TLC: %s" % e)
    ok = False
    err_seen = None
    with open(cases_path, "a") as out:
        try:
            for line in p.stdout:
                if line.startswith('<<"CASE", '):
                    s = line.rstrip("\n")
                    try:
                        out.write(json.loads(s[len('<<"CASE", '):-2]) + "\n")
                    except Exception as e:
                        raise Infra("bad CASE line from TLC: %s (%s)" % (s[:200], e))
                    res.cases += 1
                    continue
                tail.append(line)
                if len(tail) > 60:
                    tail.pop(0)
                m = re.match(r"(\d+) states generated, (\d+) distinct states found, (\d+) states left", line)
                if m:
                    res.generated, res.distinct = int(m.group(1)), int(m.group(2))
                m = re.match(r"The depth of the complete state graph search is (\d+)", line)
                if m:
                    res.depth = int(m.group(1))
                if "Model checking completed. No error has been found" in line or "Finished in" in line and simulate:
                    ok = True
                if line.startswith("Error:") or "is violated" in line or "Exception" in line:
                    if err_seen is None:
                        err_seen = line.strip()
                if time.time() - t0 > timeout:
                    p.kill()
                    raise Infra("TLC timeout after %ds on %s" % (timeout, module))
        finally:
            p.stdout.close()
            p.wait()
    res.wall = time.time() - t0
    res.log_tail = "".join(tail)
    shutil.rmtree(wd, ignore_errors=True)
    if err_seen or not ok:
        raise Infra("TLC did not complete cleanly on %s: %s\n%s" % (module, err_seen, res.log_tail[-3000:]))
    return res


_built = {}


def build_harness(scr, tags=("verif",), cmd="replay", race=False, cover=False):
    """go build the harness against /repo's CURRENT working tree."""
    key = (tuple(tags), cmd, race, cover)
    if key in _built:
        return _built[key]
    out = scr.path("%s-%s%s" % (cmd, "_".join(tags), "-race" if race else ""))
    # go.sum must match the repository's
    try:
        shutil.copy(os.path.join(REPO, "go.sum"), os.path.join(HARNESS, "go.sum"))
    except OSError:
        pass
    args = ["go", "build", "-tags", ",".join(tags), "-o", out]
    if race:
        args.append("-race")
    if cover:
        # the main package has to be among the covered packages or no counter file is written at exit
        args += ["-cover", "-coverpkg=verif/harness/...,gorgonia.org/tensor/..."]
    args.append("./cmd/" + cmd)
    t0 = time.time()
    p = subprocess.run(args, cwd=HARNESS, env=GOENV, capture_output=True, text=True)
    if p.returncode != 0:
        raise Infra("go build failed (%s):\n%s" % (" ".join(args), p.stderr[-4000:]))
    log("built %s [%s] in %.1fs" % (cmd, ",".join(tags), time.time() - t0))
    _built[key] = out
    return out


def merge_stats(a, b):
    for k, v in b.items():
        if isinstance(v, dict):
            d = a.setdefault(k, {})
            for kk, vv in v.items():
                d[kk] = d.get(kk, 0) + vv
        elif isinstance(v, (int, float)):
            a[k] = a.get(k, 0) + v
    return a


def run_replay(scr, binary, cases_path, dtypes="sizes", pals="ident", rotate=0, seed=0, shards=None, engine="",
               cfgname="default", maxdiv=3000, extra=(), env=None, timeout=3000):
    shards = shards or NPROC
    procs = []
    tag = hashlib.md5((cases_path + cfgname + dtypes + pals + engine).encode()).hexdigest()[:8]
    for i in range(shards):
        outp = scr.path("div-%s-%d.ndjson" % (tag, i))
        stp = scr.path("stats-%s-%d.json" % (tag, i))
        cmd = [binary, "-cases", cases_path, "-dtypes", dtypes, "-pals", pals, "-rotate", str(rotate), "-seed", str(seed),
               "-shard", "%d/%d" % (i, shards), "-out", outp, "-stats", stp, "-maxdiv", str(maxdiv), "-engine", engine,
               "-cfgname", cfgname] + list(extra)
        procs.append((subprocess.Popen(cmd, stdout=subprocess.PIPE, stderr=subprocess.PIPE, text=True, env=env or GOENV), outp, stp))
    stats, divs, samples = {}, [], []
    t0 = time.time()
    for p, outp, stp in procs:
        try:
            so, se = p.communicate(timeout=max(1, timeout - (time.time() - t0)))
        except subprocess.TimeoutExpired:
            for q, _, _ in procs:
                q.kill()
            raise Infra("replay timeout")
        if p.returncode != 0:
            raise Infra("replayer failed (exit %d): %s\n%s" % (p.returncode, so[-2000:], se[-4000:]))
        with open(stp) as f:
            st = json.load(f)
        merge_stats(stats, st["stats"])
        for s in st.get("samples", []):
            if len(samples) < 3:
                samples.append(s)
        with open(outp) as f:
            for line in f:
                divs.append(json.loads(line))
    return stats, divs, samples


# ---------------------------------------------------------------------------------------------
# known findings
# ---------------------------------------------------------------------------------------------
def load_findings():
    p = os.path.join(VERIF, "known_findings.json")
    if not os.path.exists(p):
        return []
    with open(p) as f:
        return json.load(f)["findings"]


def finding_matches(kf, d):
    m = kf.get("match", {})
    dv = d["div"]
    for key, field in (("op", "op"), ("kind", "kind"), ("fam", "fam"), ("dt", "dt"), ("cfg", "cfg")):
        if key in m and not re.fullmatch(m[key], dv.get(field, "")):
            return False
    if "tag" in m and m["tag"] not in (dv.get("tags") or []):
        return False
    if "tag_re" in m and not any(re.fullmatch(m["tag_re"], t) for t in (dv.get("tags") or [])):
        return False
    if "detail_re" in m and not re.search(m["detail_re"], dv.get("detail", "")):
        return False
    if "path_re" in m and not re.search(m["path_re"], dv.get("path", "")):
        return False
    if "not_path_re" in m and re.search(m["not_path_re"], dv.get("path", "")):
        return False
    return True


def classify(divs):
    """split divergences into (violations, {finding id: [divs]})"""
    kfs = [k for k in load_findings() if k.get("status") == "open"]
    viol, known = [], {}
    for d in divs:
        hit = None
        for k in kfs:
            if finding_matches(k, d):
                hit = k
                break
        if hit:
            known.setdefault(hit["id"], []).append(d)
        else:
            viol.append(d)
    return viol, known, {k["id"]: k for k in kfs}


# ---------------------------------------------------------------------------------------------
# evidence / verdict
# ---------------------------------------------------------------------------------------------
def _by_operator(stats):
    out = {}
    for key, n in stats.get("sub_cmp", {}).items():
        out.setdefault(key.split("/")[0], [0, 0])[0] += n
    for key, n in stats.get("sub_open", {}).items():
        out.setdefault(key.split("/")[0], [0, 0])[1] += n
    return out


class Report:
    def __init__(self, pid, tier, seed):
        self.pid, self.tier, self.seed = pid, tier, seed
        self.states = 0
        self.transitions = 0
        self.execs = 0
        self.calls = 0
        self.compared = 0
        self.nontrivial = 0
        self.refused = 0
        self.open = 0
        self.cases = 0
        self.samples = []
        self.divs = []
        self.parts = []
        self.assumptions = []
        self.extra = {}
        self.t0 = time.time()
        self.exhaustive = True
        self.rule = ""

    def add_tlc(self, name, r):
        self.states += r.distinct
        self.transitions += r.generated
        self.parts.append({"config": name, "tlc_states_distinct": r.distinct, "tlc_states_generated": r.generated,
                           "cases_emitted": r.cases, "tlc_wall_s": round(r.wall, 1)})

    def add_replay(self, name, stats, divs, samples):
        self.execs += stats.get("execs", 0)
        self.calls += stats.get("calls", 0)
        self.compared += stats.get("compared", 0)
        self.nontrivial += stats.get("nontrivial", 0)
        self.refused += stats.get("refused", 0)
        self.open += stats.get("open", 0)
        self.cases += stats.get("cases", 0)
        self.divs += divs
        for s in samples:
            if len(self.samples) < 4:
                self.samples.append(s)
        self.parts.append({"replay": name, "executions": stats.get("execs", 0), "library_calls": stats.get("calls", 0),
                           "comparisons": stats.get("compared", 0), "refused": stats.get("refused", 0),
                           "open": stats.get("open", 0), "by_op": stats.get("by_op", {}),
                           "refused_ops": stats.get("refused_ops", {}), "divergences": len(divs),
                           "level2_strides_agree": stats.get("l2_agree", 0), "level2_strides_differ": stats.get("l2_differ", 0),
                           # per substituted operator: computed values compared / left open (no oracle), summed over element types
                           "operator_values": _by_operator(stats),
                           # circumstance tags: executions in which each occurred / compared to the end and agreed / diverged
                           "circumstances": {t: [n, stats.get("tag_pass", {}).get(t, 0), stats.get("tag_div", {}).get(t, 0)]
                                             for t, n in sorted(stats.get("tag_n", {}).items())}})

    def finish(self):
        # vacuity guard: an operator every computed value of which was left open by the evaluator has no oracle
        for part in self.parts:
            for op, (cmp_n, open_n) in (part.get("operator_values") or {}).items():
                if cmp_n == 0 and open_n > 0:
                    raise Infra("vacuous oracle: no value of operator %s was compared in %s (%d left open)" % (op, part.get("replay"), open_n))
        viol, known, kfs = classify(self.divs)
        outdir = os.path.join(OUT, self.pid)
        shutil.rmtree(outdir, ignore_errors=True)
        os.makedirs(outdir, exist_ok=True)
        os.makedirs(EVID, exist_ok=True)
        lines = []
        for kid, ds in sorted(known.items()):
            k = kfs[kid]
            lines.append("KNOWN-FINDING: property=%s %s %s (%d observations this run, e.g. %s)" % (
                self.pid, kid, k.get("observed", ""), len(ds), ds[0]["div"]["path"][:160]))
            with open(os.path.join(outdir, "known_%s.json" % kid), "w") as f:
                json.dump(ds[0], f)
        with open(os.path.join(outdir, "all_divergences.ndjson"), "w") as f:
            for d in viol[:20000]:
                f.write(json.dumps(d["div"]) + "\n")
        with open(os.path.join(outdir, "known_divergences.ndjson"), "w") as f:
            for kid, ds in sorted(known.items()):
                for d in ds[:5000]:
                    f.write(json.dumps({"kf": kid, "div": d["div"]}) + "\n")
        seen = set()
        nviol = 0
        for d in viol:
            sig = (d["div"]["op"], d["div"]["kind"], d["div"]["path"])
            if sig in seen:
                continue
            seen.add(sig)
            nviol += 1
            if nviol > 25:
                continue
            p = os.path.join(outdir, "viol_%03d.json" % nviol)
            with open(p, "w") as f:
                json.dump(d, f)
            lines.append("VIOLATION property=%s replay=%s" % (self.pid, p))
            dv = d["div"]
            lines.append("  # [%s/%s/%s] %s step %d %s: %s" % (dv["dt"], dv["pal"], dv["cfg"], dv["path"][:300], dv["step"], dv["kind"], dv["detail"][:400]))
        wall = time.time() - self.t0
        if self.execs == 0 and not self.extra.get("allow_no_execs"):
            raise Infra("nothing was replayed on the implementation (vacuous run)")
        cov = {
            "states": max(self.states, 1), "transitions": max(self.transitions, 1),
            "traces_validated_against_impl": self.execs,
            "samples": self.samples or ["(no sample)"],
            "evaluations": self.calls, "distinct_nontrivial": self.nontrivial,
            "rule": self.rule,
            "exhaustive": self.exhaustive,
            "comparisons": self.compared, "cases_emitted_by_tlc": self.cases,
            "refused_by_library_accepted": self.refused, "ended_open_by_statement": self.open,
            "known_findings_observed": {k: len(v) for k, v in known.items()},
            "parts": self.parts,
        }
        cov.update(self.extra.get("coverage", {}))
        ev = {"property_id": self.pid, "tier": self.tier, "seed": self.seed, "level": "model_checking",
              "coverage": cov, "assumptions": self.assumptions, "wall_s": round(wall, 1), "violations": nviol}
        with open(os.path.join(EVID, self.pid + ".json"), "w") as f:
            json.dump(ev, f, indent=1)
        for l in lines:
            print(l)
        print("%s %s: tlc states=%d transitions=%d; replayed %d executions (%d library calls, %d comparisons); refused=%d open=%d; known=%d violations=%d; %.1fs" % (
            self.pid, self.tier, self.states, self.transitions, self.execs, self.calls, self.compared, self.refused, self.open,
            len(known), nviol, wall))
        return 1 if nviol else 0


# ---------------------------------------------------------------------------------------------
# direction B: record traces from the real library, validate them with TLC against spec/Trace.tla
# ---------------------------------------------------------------------------------------------
def record_and_validate(scr, name, seed, traces, steps, dtype="float64", tags=("verif",), timeout=1500):
    """returns (events, tlc_states, mismatch or None, trace_path)"""
    rec = build_harness(scr, tags=tags, cmd="record")
    wd = scr.path("trace-" + name)
    os.makedirs(wd, exist_ok=True)
    tr = os.path.join(wd, "tr.ndjson")
    p = subprocess.run([rec, "-seed", str(seed), "-traces", str(traces), "-steps", str(steps), "-dtype", dtype, "-out", tr],
                       capture_output=True, text=True, env=GOENV, timeout=timeout)
    if p.returncode != 0:
        raise Infra("recorder failed: %s %s" % (p.stdout[-1000:], p.stderr[-3000:]))
    events = sum(1 for _ in open(tr))
    for fn in os.listdir(SPEC):
        if fn.endswith(".tla"):
            shutil.copy(os.path.join(SPEC, fn), wd)
    with open(os.path.join(wd, "Trace.cfg"), "w") as f:
        f.write('SPECIFICATION TSpec\nCONSTANTS TraceFile = "tr.ndjson"\nINVARIANTS TraceOK Consumed\nCHECK_DEADLOCK FALSE\n')
    env = dict(os.environ)
    env.pop("JAVA_TOOL_OPTIONS", None)
    cmd = ["java", "-Djava.io.tmpdir=" + wd, "-Xmx6g", "-Xss128m", "-XX:+UseParallelGC", "-XX:ParallelGCThreads=4", "-cp", TLA_CP, "tlc2.TLC", "-workers", "1",
           "-metadir", os.path.join(wd, "md"), "-config", "Trace.cfg", "Trace.tla"]
    try:
        q = subprocess.run(cmd, cwd=wd, capture_output=True, text=True, env=env, timeout=timeout)
    except subprocess.TimeoutExpired:
        raise Infra("TLC trace validation timed out")
    out = q.stdout
    m = re.search(r"(\d+) states generated, (\d+) distinct states found", out)
    states = int(m.group(2)) if m else 0
    mm = re.search(r'<<\s*"MISMATCH",\s*(\d+),(.*?)>>\s*\n(?:Error|<<|\d+ states|State|Model checking|Progress)', out, re.S)
    if mm:
        line = int(mm.group(1))
        detail = " ".join(mm.group(2).split())[:1500]
        return events, states, {"line": line, "detail": detail}, tr
    if '"CONSUMED"' not in out:
        raise Infra("TLC neither accepted nor rejected the trace:\n" + out[-3000:])
    return events, states, None, tr


def trace_context(tr, line):
    """the operations of the trace that contains `line` (1-based), up to that line"""
    evs = [json.loads(l) for l in open(tr)]
    start = max(i for i in range(line) if evs[i]["ev"] == "reset")
    ops = []
    for i in range(start + 1, line):
        e = evs[i]
        ops.append("%s(h%d,%s)" % (e["op"]["k"], e["op"]["h"], json.dumps(e["op"]["a"], separators=(",", ":"))))
    return ops, evs[line - 1], evs[start:line]
