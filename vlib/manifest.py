"""Regenerates MANIFEST.json from the registry of implemented checks."""
import json, os, sys
sys.path.insert(0, os.path.dirname(os.path.dirname(os.path.abspath(__file__))))
from vlib import props

TEXT = props.LEVELS

def main():
    props_all = [json.loads(l)["id"] for l in open(os.path.join(os.path.dirname(__file__), "..", "properties.jsonl"))]
    checks = []
    for pid in props_all:
        if pid not in props.CHECKS:
            continue
        lv = TEXT[pid]
        checks.append({
            "property_id": pid,
            "quick_cmd": "bin/check %s --tier quick" % pid,
            "thorough_cmd": "bin/check %s --tier thorough" % pid,
            "evidence_file": "/verif/evidence/%s.json" % pid,
            "replay_cmd_template": "bin/check %s --replay {path}" % pid,
            "engine": "tlc+replay",
            "level_claimed": {"category": "model_checking", "text": lv["text"], "design_ref": lv["ref"]},
            "level_note": lv["note"],
            "technique": lv["technique"],
        })
    na = [{"property_id": p, "reason": props.NOT_YET.get(p, "check not built yet (work in progress); see DESIGN.md")} for p in props_all if p not in props.CHECKS]
    m = {
        "version": 1,
        "setup_cmd": "bin/setup",
        "hooks": {"guard": "verif", "enable": "go build -tags verif (the harness module replaces gorgonia.org/tensor with /repo)",
                  "baseline_off_cmd": "bin/baseline", "source_commits": props.HOOK_COMMITS, "add_only": True},
        "engines": [{"name": "tlc+replay", "path": "/verif/bin/check", "serves_properties": [c["property_id"] for c in checks],
                     "kind_free_text": "TLC (explicit TLA+ specification in /verif/spec) enumerates behaviours of the abstract tensor machine; every behaviour is replayed on the real library built from /repo's working tree and every live tensor and caller-owned slice is compared with the specification's state; recorded traces of the real library are validated by TLC against the same specification"}],
        "checks": checks,
        "not_applicable": na,
        "notes": "exit 2 = infrastructure problem (never a verdict). known findings: /verif/known_findings.json",
    }
    with open(os.path.join(os.path.dirname(__file__), "..", "MANIFEST.json"), "w") as f:
        json.dump(m, f, indent=1)
    print("MANIFEST.json: %d checks, %d not claimed" % (len(checks), len(na)))

if __name__ == "__main__":
    main()
