"""Per-property checks: which configurations of the specification are explored and how the
emitted behaviours are replayed on the real library."""
import os
from .core import *


class Ctx:
    def __init__(self, pid, tier, seed):
        self.pid, self.tier, self.seed = pid, tier, seed
        self.scr = Scratch()
        self.rep = Report(pid, tier, seed)
        self.quick = tier == "quick"

    def tlc(self, module, name, consts, invariants, workers=None, timeout=1500, heap="6g", spec="Spec"):
        cfg = self.scr.path(name + ".cfg")
        write_cfg(cfg, spec=spec, consts=consts, invariants=invariants)
        cases = self.scr.path(name + ".cases.ndjson")
        r = run_tlc(self.scr, module, cfg, cases, workers=workers, timeout=timeout, heap=heap)
        self.rep.add_tlc(name, r)
        log("TLC %s: %d distinct states, %d generated, %d cases, %.1fs" % (name, r.distinct, r.generated, r.cases, r.wall))
        return cases

    def replay(self, name, cases, tags=("verif",), **kw):
        binary = build_harness(self.scr, tags=tags)
        kw.setdefault("seed", self.seed)
        stats, divs, samples = run_replay(self.scr, binary, cases, cfgname=",".join(t for t in tags if t != "verif") or "default", **kw)
        self.rep.add_replay(name, stats, divs, samples)
        log("replay %s: %d executions, %d calls, %d divergences" % (name, stats.get("execs", 0), stats.get("calls", 0), len(divs)))
        return stats, divs


def check_C01(c):
    q = c.quick
    consts = {"MaxRank": 4, "MaxDim": 3, "MaxDim4": 2, "Ctors": {S("C"), S("F"), S("Fconv")}, "Rich": not q}
    if not q:
        consts.update({"MaxDim": 4})
    cases = c.tlc("MC_addr", "addr", consts, ["TypeOK", "CopiesDisjoint", "TableBijective", "Emit"])
    c.replay("addr", cases, dtypes="all", pals="ident", rotate=6 if q else 0)
    c.rep.rule = ("TLC enumerates every shape of rank 0-4 x constructor {row-major, column-major declared, column-major converted} "
                  "x layout {as built, one slice, one transposition} and emits the complete coordinate->cell table over the box "
                  "[-2,dim+1]^rank plus wrong-arity coordinates; each table entry is one At and one SetAt on the real tensor "
                  "(full snapshot of every backing and every live tensor around each write). non-trivial = executions with "
                  "at least one layout step or more than one element that passed every comparison")
    c.rep.assumptions = ["element identity is observed through pairwise distinct values (bool: alternating values only)",
                         "bounds: rank<=4, dims<=3 (rank 4: dims<=2) quick; dims<=4 thorough"]


CHECKS = {"C01": check_C01}

HOOK_COMMITS = []
NOT_YET = {}
LEVELS = {
    "C01": {"ref": "DESIGN.md 4 C01",
            "technique": "TLC-enumerated behaviours of the TLA+ tensor machine (MC_addr) replayed on the real library",
            "text": "bounded exhaustive model checking: TLC enumerates every shape/constructor/layout in bounds and the complete coordinate->cell table of each; every table entry is executed (At and SetAt) on the real tensor for every element type, with a full snapshot of all storage around each write",
            "note": "bounded (rank<=4, dims<=3/4); element identity observed through distinct values; the public API (At, Data via the caller's backing) is the observation function"},
}
