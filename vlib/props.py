"""Per-property checks: which configurations of the specification are explored and how the
emitted behaviours are replayed on the real library."""
import os
from .core import *


class Ctx:
    def __init__(self, pid, tier, seed):
        self.pid, self.tier, self.seed = pid, tier, seed
        self.scr = Scratch()
        self.rep = Report(pid, tier, seed)
        self.quick = tier == "quick"

    def tlc(self, module, name, consts, invariants, workers=None, timeout=1500, heap="6g", spec="Spec"):
        cfg = self.scr.path(name + ".cfg")
        write_cfg(cfg, spec=spec, consts=consts, invariants=invariants)
        cases = self.scr.path(name + ".cases.ndjson")
        r = run_tlc(self.scr, module, cfg, cases, workers=workers, timeout=timeout, heap=heap)
        self.rep.add_tlc(name, r)
        log("TLC %s: %d distinct states, %d generated, %d cases, %.1fs" % (name, r.distinct, r.generated, r.cases, r.wall))
        return cases

    def replay(self, name, cases, tags=("verif",), **kw):
        binary = build_harness(self.scr, tags=tags)
        kw.setdefault("seed", self.seed)
        stats, divs, samples = run_replay(self.scr, binary, cases, cfgname=",".join(t for t in tags if t != "verif") or "default", **kw)
        self.rep.add_replay(name, stats, divs, samples)
        log("replay %s: %d executions, %d calls, %d divergences" % (name, stats.get("execs", 0), stats.get("calls", 0), len(divs)))
        return stats, divs


def check_C01(c):
    q = c.quick
    consts = {"MaxRank": 4, "MaxDim": 3, "MaxDim4": 2, "Ctors": {S("C"), S("F"), S("Fconv"), S("Cpre"), S("Fpre")}, "Rich": not q}
    if not q:
        consts.update({"MaxDim": 4})
    consts["Deep"] = False
    cases = c.tlc("MC_addr", "addr", consts, ["TypeOK", "CopiesDisjoint", "TableBijective", "Emit"])
    c.replay("addr", cases, dtypes="all", pals="ident", rotate=3 if q else 0)
    # layouts three steps from construction (T;T;T on column-major tensors and on sliced views): fewer element types
    deep = dict(consts, Deep=True, Ctors={S("C"), S("F")}, MaxRank=3, MaxDim=3 if q else 3)
    cases = c.tlc("MC_addr", "addr-deep", deep, ["TypeOK", "CopiesDisjoint", "Emit"])
    c.replay("addr-deep", cases, dtypes="sizes", pals="ident", rotate=1 if q else 2)
    c.rep.rule = ("TLC enumerates every shape of rank 0-4 x constructor {row-major, column-major declared, column-major converted} "
                  "x layout {as built, one slice, one transposition} and emits the complete coordinate->cell table over the box "
                  "[-2,dim+1]^rank plus wrong-arity coordinates; each table entry is one At and one SetAt on the real tensor "
                  "(full snapshot of every backing and every live tensor around each write). non-trivial = executions with "
                  "at least one layout step or more than one element that passed every comparison")
    c.rep.assumptions = ["element identity is observed through pairwise distinct values (bool: alternating values only)",
                         "bounds: rank<=4, dims<=3 (rank 4: dims<=2) quick; dims<=4 thorough"]


def check_C02(c):
    q = c.quick
    inv = ["TypeOK", "CopiesDisjoint", "ViewsAreSubselections", "Emit"]
    base = {"MinRank": 1, "Ctors": {S("C"), S("F")}, "MaxStep": 2}
    # (a) the complete argument space on low ranks, sources row-/column-major and lazily transposed
    k1 = dict(base, MaxRank=2, MaxDim=3 if q else 4, MaxDimHi=2, FullRank=2, Depth=1, WithT=True)
    if not q:
        k1["MaxStep"] = 3
    cases = c.tlc("MC_slice", "slice-full", k1, inv)
    c.replay("slice-full", cases, dtypes="sizes", pals="ident", rotate=3 if q else 0)
    # (b) higher ranks: one axis over the complete space, the others over a palette; nesting
    k2 = dict(base, MinRank=3, MaxRank=3 if q else 4, MaxDim=2, MaxDimHi=2, FullRank=0, Depth=1, WithT=False)
    cases = c.tlc("MC_slice", "slice-hi", k2, inv)
    c.replay("slice-hi", cases, dtypes="sizes", pals="ident", rotate=2)
    if not q:   # lazily transposed rank-3 sources (rank 4 transposed sources would be millions of behaviours)
        k2t = dict(base, MinRank=3, MaxRank=3, MaxDim=2, MaxDimHi=2, FullRank=0, Depth=1, WithT=True, Ctors={S("C")})
        cases = c.tlc("MC_slice", "slice-hi-t", k2t, inv)
        c.replay("slice-hi-t", cases, dtypes="sizes", pals="ident", rotate=2)
    if not q:   # rank 3 with dims up to 3 (rank 4 stays at dims <= 2)
        k2b = dict(base, MinRank=3, MaxRank=3, MaxDim=3, MaxDimHi=3, FullRank=0, Depth=1, WithT=False, Ctors={S("C")})
        cases = c.tlc("MC_slice", "slice-r3", k2b, inv)
        c.replay("slice-r3", cases, dtypes="float64,uint8,string", pals="ident")
    # (b') longer axes and larger steps on rank 1-2 (one axis over the complete space): the entry count of a stepped range
    kw = dict(base, MinRank=1, MaxRank=2, MaxDim=6 if q else 7, MaxDimHi=6 if q else 7, FullRank=1, Depth=1, WithT=False, MaxStep=4 if q else 5)
    cases = c.tlc("MC_slice", "slice-wide", kw, inv)
    c.replay("slice-wide", cases, dtypes="float64,int8", pals="ident", rotate=1 if q else 0)
    # (c) nested slicing (slice of slice of transpose) to depth 3 over the palette
    k3 = dict(base, MinRank=1, MaxRank=2, MaxDim=3 if q else 4, MaxDimHi=3 if q else 4, FullRank=0, Depth=3, WithT=True, MaxStep=1)
    cases = c.tlc("MC_slice", "slice-nested", k3, inv)
    c.replay("slice-nested", cases, dtypes="sizes", pals="ident", rotate=2)
    if not q:   # rank 3 (dims <= 2) nested to depth 2
        k3b = dict(base, MinRank=3, MaxRank=3, MaxDim=2, MaxDimHi=2, FullRank=0, Depth=2, WithT=True, MaxStep=1)
        cases = c.tlc("MC_slice", "slice-nested-r3", k3b, inv)
        c.replay("slice-nested-r3", cases, dtypes="sizes", pals="ident", rotate=2)
    c.rep.rule = ("TLC enumerates sources {row-major, column-major, lazily transposed, slice} x shapes x the complete per-axis "
                  "argument space (nil, index -1..d, start -1..d, end 0..d+1, step 0..MaxStep, fewer slices than axes) and nested "
                  "slicing to depth 3; each emitted behaviour is executed on the real library and every live tensor plus every "
                  "backing is compared (shape modulo droppable axes, elements in row-major order, rejection set). non-trivial = "
                  "executions whose program has at least two steps and passed every comparison")
    c.rep.assumptions = ["start = end (empty range) and negative steps are left open by the statement: not compared",
                         "a result shape that differs from the model's only by axes the statement allows to drop is accepted"]


def check_C03(c):
    q = c.quick
    inv = ["TypeOK", "CopiesDisjoint", "PendConsistent", "ComposeLaw", "InverseLaw", "Emit"]
    jobs = []
    ALL = {S("T"), S("UT"), S("Transpose"), S("Materialize"), S("SafeT")}
    # (a) all programs of length <= 2 (quick) / 3 (thorough) for rank <= 3, row- and column-major
    jobs.append(("trans-lo", dict(MinRank=0, MaxRank=3, MaxDim=3, MaxDimHi=3, HiRank=3, Ctors={S("C"), S("F")},
                                  MaxLen=2, WithSlice=False, PermPalette=False, Alphabet=ALL, BothTargets=not q)))
    # programs of length 3 on vectors, vector-shaped matrices and small matrices (T; Transpose; UT and the like)
    jobs.append(("trans-len3-lo", dict(MinRank=1, MaxRank=2, MaxDim=3, MaxDimHi=3, HiRank=3, Ctors={S("C")},
                                       MaxLen=3, WithSlice=False, PermPalette=False, Alphabet=ALL | {S("FullView")}, BothTargets=False)))
    if not q:
        jobs.append(("trans-len3", dict(MinRank=2, MaxRank=3, MaxDim=3, MaxDimHi=2, HiRank=3, Ctors={S("C")},
                                        MaxLen=3, WithSlice=False, PermPalette=False, Alphabet=ALL, BothTargets=False)))
    # (b) axis rolling
    jobs.append(("trans-roll", dict(MinRank=2, MaxRank=3, MaxDim=3, MaxDimHi=3 if not q else 2, HiRank=3, Ctors={S("C")},
                                    MaxLen=2, WithSlice=False, PermPalette=False, Alphabet={S("RollAxis"), S("UT"), S("T")},
                                    BothTargets=False)))
    # (c) sliced sources
    jobs.append(("trans-sliced", dict(MinRank=2, MaxRank=3, MaxDim=3, MaxDimHi=2, HiRank=3, Ctors={S("C")},
                                      MaxLen=2, WithSlice=True, PermPalette=False,
                                      Alphabet=ALL - ({S("SafeT")} if q else set()), BothTargets=False)))
    # (d) ranks 4 and 5 with a permutation palette
    jobs.append(("trans-hi", dict(MinRank=4, MaxRank=4 if q else 5, MaxDim=2, MaxDimHi=2, HiRank=4, Ctors={S("C")},
                                  MaxLen=2, WithSlice=False, PermPalette=True, Alphabet=ALL, BothTargets=False)))
    if not q:
        jobs.append(("trans-len4", dict(MinRank=2, MaxRank=3, MaxDim=3, MaxDimHi=2, HiRank=3, Ctors={S("C")},
                                        MaxLen=4, WithSlice=False, PermPalette=True,
                                        Alphabet={S("T"), S("UT"), S("Transpose"), S("Materialize")}, BothTargets=False)))
    # Level 2: the in-place transposition algorithm of the inplacetranspose build, transcribed (spec/InplaceT.tla), refines
    # Level-1 Transpose for every shape and permutation in bounds (design level; the behaviours below bind it to the code)
    c.tlc("MC_inplace", "inplace-refines", dict(MaxRank=4, MaxDim=3 if q else 4, MaxDimHi=2, HiRank=4), ["Refines"])
    for name, k in jobs:
        cases = c.tlc("MC_trans", name, k, inv)
        for tags in (("verif",), ("verif", "inplacetranspose")):
            c.replay(name + ":" + "+".join(tags), cases, tags=tags, dtypes="sizes", pals="ident", rotate=2 if q else 0)
    c.rep.rule = ("TLC enumerates programs over {T(p), UT, Transpose, Materialize, SafeT(p), RollAxis} on contiguous, sliced and "
                  "column-major sources for every shape and permutation in bounds; each behaviour is executed in the default and the "
                  "inplacetranspose build, for element sizes 1,2,4,8,16 bytes and strings; every live tensor, and the caller's backing "
                  "(storage order after physical moves) is compared after the program. Level 2: spec/InplaceT.tla transcribes the "
                  "cycle-following in-place transposition (transposeIndex, Itol, the bitmap loop) and TLC checks that it leaves the "
                  "storage in the row-major order of the transposed tensor for every shape and permutation in bounds")
    c.rep.assumptions = ["invalid permutations are left open at Level 1 (their rejection is checked under C13)",
                         "InplaceT.tla assumes the standard saved access pattern (the circumstances of KF-C03-3/4 are outside it)"]


def check_C04(c):
    q = c.quick
    inv = ["TypeOK", "CopiesDisjoint", "ViewAliases", "Emit"]
    W = {S(x) for x in ("Memset", "Zero", "UnsafeUn", "UnsafeBinK", "SetSweep", "SetAt", "Copy", "UnsafeBinT")}
    C = {S(x) for x in ("Clone", "Materialize", "SafeT", "CopyInto", "CopyTo", "Native", "Mat64")}
    jobs = [("views-1", dict(MinRank=1, MaxRank=3, MaxDim=3, MaxDimHi=2 if q else 3, HiRank=3, Ctors={S("C"), S("F")}, ViewDepth=1,
                             RichPalette=not q, Writes=W, Copies=C))]
    jobs.append(("views-2", dict(MinRank=2, MaxRank=2 if q else 3, MaxDim=3, MaxDimHi=2, HiRank=3, Ctors={S("C")}, ViewDepth=2,
                                 RichPalette=False, Writes=W, Copies=C if not q else {S("Clone"), S("Materialize"), S("CopyInto")})))
    if not q:
        jobs.append(("views-r4", dict(MinRank=4, MaxRank=4, MaxDim=2, MaxDimHi=2, HiRank=4, Ctors={S("C")}, ViewDepth=1,
                                      RichPalette=False, Writes=W, Copies=C)))
    # shallow clones: a second tensor object over the same storage (own access-pattern record); every whole-tensor write
    # through a shallow clone, a slice/transpose of one, or a shallow clone of a slice/transpose must land on the shared cells only
    jobs.append(("views-shallow", dict(MinRank=1, MaxRank=2 if q else 3, MaxDim=3, MaxDimHi=2, HiRank=3, Ctors={S("C")} if q else {S("C"), S("F")},
                                       ViewDepth=2, RichPalette=False, Writes=W, Copies={S("ShallowClone"), S("Clone"), S("Materialize")})))
    for name, k in jobs:
        cfgp = c.scr.path(name + ".cfg")
        write_cfg(cfgp, consts=k, invariants=inv, properties=["Frame"])
        cases = c.scr.path(name + ".cases.ndjson")
        r = run_tlc(c.scr, "MC_views", cfgp, cases)
        c.rep.add_tlc(name, r)
        log("TLC %s: %d distinct, %d cases, %.1fs" % (name, r.distinct, r.cases, r.wall))
        # (the non-finite palette matters for the conversions: NaN, the infinities and signed zeros must survive a copy)
        c.replay(name, cases, dtypes="all", pals="ident,nonfinite", rotate=3 if q else 0, extra=(["-palrotate", "1"] if q else []))
    c.rep.rule = ("TLC enumerates every view obtainable by <=2 slice/transpose steps from shapes of rank 1-4 (row- and column-major "
                  "parents) x every whole-tensor write {Memset, Zero, unsafe unary, unsafe binary with scalar and with a fresh tensor, "
                  "Copy into the view, SetAt sweep, single SetAt through parent and view} and every copy {Clone, Materialize, SafeT, "
                  "Copy, CopyTo, native.*, ToMat64/FromMat64} followed by probe writes on both sides; every parent cell holds its own "
                  "distinct sentinel, and after each behaviour EVERY live tensor and the complete caller backing is compared with the "
                  "specification's heap (the frame is the TLC action property Frame)")
    c.rep.assumptions = ["CopyTo may refuse views and mixed layouts (documented); native conversions may refuse non-contiguous tensors",
                         "storage of library-allocated copies is observed only through At (disjointness by probe writes)"]


def check_C13(c):
    q = c.quick
    inv = ["TypeOK", "CopiesDisjoint", "ReshapeKeepsFlat", "Emit"]
    # (a) reshape to every factorisation, after slicing / transposing, row- and column-major
    k = dict(MinRank=0, MaxRank=3, MaxDim=4 if q else 5, MaxDimHi=2 if q else 3, HiRank=3, Ctors={S("C"), S("F")},
             MaxNewRank=3, WithViews=True, Mode=S("reshape"))
    cases = c.tlc("MC_shape", "reshape", k, inv)
    c.replay("reshape", cases, dtypes="sizes", pals="ident", rotate=2 if q else 3)
    if not q:   # rank 4 (every axis <= 3) as built, to every factorisation of rank <= 4
        k4 = dict(MinRank=4, MaxRank=4, MaxDim=3, MaxDimHi=3, HiRank=4, Ctors={S("C"), S("F")}, MaxNewRank=4, WithViews=False, Mode=S("reshape"))
        cases = c.tlc("MC_shape", "reshape-r4", k4, inv)
        c.replay("reshape-r4", cases, dtypes="sizes", pals="ident", rotate=2)
    # (b) transposition: every axis list (valid, repeated, out of range, wrong length) against the calculator
    k = dict(MinRank=0, MaxRank=3, MaxDim=3, MaxDimHi=2, HiRank=3, Ctors={S("C"), S("F")},
             MaxNewRank=1, WithViews=not q, Mode=S("perm"))
    cases = c.tlc("MC_shape", "perm", k, inv)
    c.replay("perm", cases, dtypes="float64,int8", pals="ident", extra=["-calc"])
    if not q:   # rank 4 as built (625 axis lists per shape, up to three transpositions)
        k4 = dict(MinRank=4, MaxRank=4, MaxDim=2, MaxDimHi=2, HiRank=3, Ctors={S("C")}, MaxNewRank=1, WithViews=False, Mode=S("perm"))
        cases = c.tlc("MC_shape", "perm-r4", k4, inv)
        c.replay("perm-r4", cases, dtypes="float64", pals="ident", extra=["-calc"])
    # (c) slicing: the argument space of C02 against the shape-only calculator
    sl = dict(MinRank=1, MaxRank=2, MaxDim=3 if q else 5, MaxDimHi=2, FullRank=2, Depth=1, WithT=False, Ctors={S("C")}, MaxStep=2 if q else 3)
    cases = c.tlc("MC_slice", "slice-calc", sl, ["TypeOK", "Emit"])
    c.replay("slice-calc", cases, dtypes="float64", pals="ident", extra=["-calc"])
    sl = dict(MinRank=3, MaxRank=3 if q else 4, MaxDim=2, MaxDimHi=3, FullRank=0, Depth=1, WithT=False, Ctors={S("C")}, MaxStep=2)
    cases = c.tlc("MC_slice", "slice-calc-hi", sl, ["TypeOK", "Emit"])
    c.replay("slice-calc-hi", cases, dtypes="int16", pals="ident", extra=["-calc"])
    # (e) Level 2: the transcription of the code's stride arithmetic (spec/AP.tla) and of the flat iterator's stepping
    #     (spec/FlatIter.tla) refines Level 1 (TLC invariants Refines, RejectsAlike, WindowHolds, DeviationIsReal, IterRefines); its behaviours are replayed like any other and the transcribed strides
    #     are compared with Strides() of the real tensors (counted, not a verdict)
    ap = dict(MinRank=1, MaxRank=3, MaxDim=3, MaxDimHi=2, FullRank=2, MaxStep=2, Ctors={S("C"), S("F")}, Depth=1 if q else 2, WithT=True)
    cases = c.tlc("MC_ap", "ap-refine", ap, ["TypeOK", "Refines", "RejectsAlike", "WindowHolds", "DeviationIsReal", "IterRefines", "Emit"])
    c.replay("ap-refine", cases, dtypes="float64,int8,string" if q else "sizes", pals="ident", rotate=1 if q else 0)
    # (c') longer axes and larger steps (the calculators round the number of entries of a stepped range)
    sl = dict(MinRank=1, MaxRank=2, MaxDim=6 if q else 7, MaxDimHi=6 if q else 7, FullRank=1, Depth=1, WithT=False, Ctors={S("C")}, MaxStep=4 if q else 5)
    cases = c.tlc("MC_slice", "slice-calc-wide", sl, ["TypeOK", "Emit"])
    c.replay("slice-calc-wide", cases, dtypes="int32", pals="ident", extra=["-calc"])
    # (d) repetition and concatenation: the argument spaces of C10 against Shape.Repeat / Shape.Concat
    for name, k in assemble_jobs(q):
        if name.startswith("asm-stack"):
            continue
        cases = c.tlc("MC_assemble", name + "-calc", k, ["TypeOK", "Emit"])
        c.replay(name + "-calc", cases, dtypes="float32", pals="ident", extra=["-calc"])
    c.rep.rule = ("TLC enumerates (a) Reshape to every factorisation of the size (and to wrong sizes) of every tensor of rank 0-4 as built, "
                  "sliced or lazily transposed, row- and column-major; (b) every axis list for T (valid, repeated, out of range, wrong length); "
                  "(c) the slicing argument space of C02; (d) the repeat/concat argument spaces of C10. The replayer executes the operation "
                  "AND the shape-only calculator (Shape.S, AP.T, Shape.Repeat, Shape.Concat) and demands the same shape and the same "
                  "failure; after Reshape the flat element sequence in the tensor's own order and the caller's backing must be unchanged. "
                  "The metadata invariant (size = product of shape; strides address distinct in-bounds positions) is evaluated on every "
                  "tensor observed by every check. (e) Level 2: spec/AP.tla transcribes CalcStrides/CalcStridesColMajor/CheckSlice/"
                  "SliceDetails/AP.S/AP.T/Dense.Slice and spec/FlatIter.tla the flat iterator; MC_ap runs them in lock step with the "
                  "Level-1 machine over New;[T];Slice;[T];[Slice] and TLC checks that they address exactly the Level-1 cells, reject "
                  "alike, stay inside the view's window and iterate in the Level-1 order - except under the NAMED deviation "
                  "lead-axis-floor (KF-C02-1), which TLC shows to be real; the transcribed strides are compared with Strides() of the "
                  "real tensors (level2_strides_agree / _differ in the evidence; informational)")
    c.rep.assumptions = ["a no-op error of the calculator counts as success (the operation swallows it)"]


LAYS = ("C", "T", "Tp", "Row", "Col", "Step", "Mat")
LAYS2 = LAYS + ("ColT", "StepT", "TCol", "TClone", "TView")     # composite layouts: a view that is also lazily transposed, a view / clone of a transposed tensor


def elem_consts(q, kinds, forms=("TT", "TS", "ST"), laya=LAYS2, layb=LAYS, modes=("safe",), layd=("C",), mismatch=True, **kw):
    k = dict(MinRank=0, MaxRank=3 if q else 4, MaxDim=3, MaxDimHi=2, HiRank=3 if q else 4,
             Kinds={S(x) for x in kinds}, Forms={S(x) for x in forms}, LayA={S(x) for x in laya}, LayB={S(x) for x in layb},
             Modes={S(x) for x in modes}, LayD={S(x) for x in layd}, ShapeMismatch=mismatch, Chain=False, ScalarTensors=False)
    k.update(kw)
    return k


ELEM_INV = ["TypeOK", "CopiesDisjoint", "OperandsIntact", "Emit"]
PALS_ARITH = "ident,signed,edge,zerodiv,nonfinite"


def check_C06(c):
    q = c.quick
    cases = c.tlc("MC_elem", "elem-arith", elem_consts(q, ["Arith"], Chain=True, ScalarTensors=True), ELEM_INV)
    c.replay("elem-arith", cases, dtypes="numeric,string,bool", pals=PALS_ARITH, rotate=8 if q else 0,
             extra=["-ops", "all", "-entries", "func,method"] + (["-palrotate", "3"] if q else []))
    # every (operator, operand order, element type) cell of the generated kernels without rotation: contiguous (plain kernels) and
    # inner-slice (iterator kernels) operands of small shapes
    kc = elem_consts(q, ["Arith"], laya=("C", "Col"), layb=("C", "Col"), mismatch=False, MinRank=1, MaxRank=2, MaxDim=2 if q else 3, HiRank=3)
    cases = c.tlc("MC_elem", "cells-arith", kc, ELEM_INV)
    c.replay("cells-arith", cases, dtypes="numeric", pals="ident,signed", extra=["-ops", "all"])
    c.rep.rule = ("job cells-arith: every operator x form x numeric element type on small contiguous / inner-slice operands WITHOUT rotation; "
                  "TLC enumerates the STRUCTURE of elementwise arithmetic: shapes of rank 0-4 x {tensor-tensor, tensor-scalar, scalar-tensor} "
                  "x an independent layout per tensor operand {contiguous, lazily transposed (reversal and cyclic), contiguous window, inner "
                  "slice, step slice, materialised} plus mismatched shapes, with the operator as the placeholder OP; the replayer substitutes "
                  "every operator {add, sub, mul, div, mod, pow, min, max}, every numeric element type (and string/bool, which must be refused), "
                  "five value palettes (distinct, signed with ties, overflow edge, zero divisors, non-finite) and both entry points (package "
                  "function and method), and compares every coordinate with Go's own operator applied to the operands' elements in operand order")
    c.rep.assumptions = ["the scalar meaning of an operator on an element type is Go's operator / math routine (named by the property)",
                         "positions with an integer zero divisor, and integer Pow whose float64 result is not exactly representable, are not compared",
                         "Mod and Pow on floats are compared within 8 ulp of math.Mod/Pow (math32 for float32)"]


ALLMODES = ("safe", "unsafe", "reuse", "incr", "reuseA", "reuseB")


def check_C07(c):
    q = c.quick
    lay = ("C", "T", "Col", "Step") if q else LAYS
    for kinds, name, dts, pals in ((["Arith"], "modes-arith", "numeric", "ident,signed,nonfinite"),
                                   (["Cmp"], "modes-cmp", "ordered,bool,complex128", "ident,signed,nonfinite"),
                                   (["Unary"], "modes-unary", "numeric,string", "ident,signed,nonfinite")):
        k = elem_consts(q, kinds, laya=lay, layb=("C", "T", "Col") if q else lay, modes=ALLMODES,
                        layd=("C", "Row", "Col", "T"), mismatch=False,
                        MaxRank=2 if q else 3, MaxDim=3 if q else 3, HiRank=3)
        cases = c.tlc("MC_elem", name, k, ELEM_INV)
        if q and name == "modes-cmp":
            # comparisons are cheap: every operator on a fixed set of element types with ties and non-finite values, no rotation
            c.replay(name, cases, dtypes="float64,float32,int16,uint8,bool,complex128", pals="signed,nonfinite",
                     extra=["-ops", "all", "-entries", "func,method"])
            continue
        c.replay(name, cases, dtypes=dts, pals=pals, rotate=3 if q else 0,
                 extra=["-ops", "all", "-entries", "func,method"] + (["-oprotate", "3", "-palrotate", "1"] if q else []))
    # every (operator, form, mode, element type) CELL of the generated kernels, without rotation, on small structures: plain
    # contiguous operands take the non-iterator kernels, an inner-slice operand the iterator kernels (one specialisation each per
    # operator x operand order x mode x element type; a swapped or copy-pasted call in one cell is invisible to any sampled rotation)
    for kinds, name, dts in ((["Arith"], "cells-arith", "numeric"), (["Unary"], "cells-unary", "numeric")):
        k = elem_consts(q, kinds, laya=("C", "Col"), layb=("C",), modes=("safe", "unsafe", "reuse", "incr"), layd=("C",), mismatch=False,
                        MinRank=1, MaxRank=2, MaxDim=2 if q else 3, HiRank=3)
        cases = c.tlc("MC_elem", name, k, ELEM_INV)
        c.replay(name, cases, dtypes=dts, pals="ident", extra=["-ops", "all"])
    c.rep.rule = ("TLC enumerates, for arithmetic, comparison and unary operations, the option modes {safe, unsafe, reuse, incr, reuse "
                  "aliasing the first / second operand} x operand layouts x destination layouts {contiguous, contiguous window view, inner "
                  "slice view (thorough: lazily transposed)}; the specification fixes which tensor is returned and which single tensor "
                  "changes (TLC invariant OperandsIntact on the model); the replayer executes every structure with every operator and "
                  "element type and compares EVERY live tensor and every caller backing afterwards, plus the identity of the returned tensor; jobs cells-*: "
                  "every operator x form x mode x numeric element type on small contiguous and inner-slice operands WITHOUT rotation")
    c.rep.assumptions = ["an aliasing reuse, and a reuse/incr into a view or lazily transposed destination, may be refused",
                         "a reuse destination of a different shape but equal size is reshaped by the library (documented); not generated"]


def check_C11(c):
    q = c.quick
    k = elem_consts(q, ["Cmp"], modes=("safe", "unsafe", "reuse"), layd=("C",), ScalarTensors=True)
    cases = c.tlc("MC_elem", "elem-cmp", k, ELEM_INV)
    c.replay("elem-cmp", cases, dtypes="all", pals="ident,signed,edge,nonfinite", rotate=8 if q else 0,
             extra=["-ops", "all", "-entries", "func,method"] + (["-palrotate", "2"] if q else []))
    kc = elem_consts(q, ["Cmp"], laya=("C", "Col"), layb=("C", "Col"), modes=("safe", "unsafe", "reuse"), mismatch=False,
                     MinRank=1, MaxRank=2, MaxDim=2 if q else 3, HiRank=3)
    cases = c.tlc("MC_elem", "cells-cmp", kc, ELEM_INV)
    c.replay("cells-cmp", cases, dtypes="all", pals="signed", extra=["-ops", "all"])
    c.rep.rule = ("job cells-cmp: every comparison x form x result kind x element type on small contiguous / inner-slice operands WITHOUT rotation; "
                  "MC_elem with the six comparisons: shapes of rank 0-4 x {tensor-tensor, tensor-scalar, scalar-tensor} x independent operand "
                  "layouts x result kind {bool tensor, same-type 1/0, unsafe in place, reuse (bool and same-type)}; every ordered element type "
                  "(equality: every comparable type incl. bool, complex, string); palettes with equal pairs, NaN and extremes; each coordinate "
                  "is compared with the truth value of Go's comparison of the operands' elements in operand order")
    c.rep.assumptions = ["complex types must refuse the ordering comparisons; bool/string support is accepted either way and compared when served"]


def check_C12(c):
    q = c.quick
    k = elem_consts(q, ["Unary"], forms=("TS",), laya=LAYS2 + ("F", "FCol"), layb=("C",), modes=("safe", "unsafe", "reuse", "incr"), layd=("C",), mismatch=False)
    cases = c.tlc("MC_elem", "elem-unary", k, ELEM_INV)
    c.replay("elem-unary", cases, dtypes="all", pals="ident,signed,edge,nonfinite,zerodiv", rotate=8 if q else 0,
             extra=["-ops", "all"] + (["-palrotate", "3"] if q else []))
    kc = elem_consts(q, ["Unary"], forms=("TS",), laya=("C", "Col"), layb=("C",), modes=("safe", "unsafe", "reuse", "incr"), mismatch=False,
                     MinRank=1, MaxRank=2, MaxDim=2 if q else 3, HiRank=3)
    cases = c.tlc("MC_elem", "cells-unary", kc, ELEM_INV)
    c.replay("cells-unary", cases, dtypes="all", pals="signed,zerodiv", extra=["-ops", "all"])
    c.rep.rule = ("job cells-unary: every unary operation x mode x element type on small contiguous / inner-slice operands WITHOUT rotation; "
                  "MC_elem with the unary operations {neg, inv, square, cube, abs, sign, sqrt, cbrt, invsqrt, exp, log, log2, log10, tanh, "
                  "clamp(lo,hi), Apply(fn)} x operand layouts x option modes; all element types (types outside an operation's domain must "
                  "be refused or are accepted either way, see Support); palettes with 0, negatives, extremes and non-finite values; exact "
                  "comparison for integer types and the algebraic functions, 8 ulp of Go's math/math32/cmplx routine otherwise")
    c.rep.assumptions = ["float32 transcendental functions are compared with github.com/chewxy/math32 (the float32 routines the package documents using)"]


def check_C08(c):
    q = c.quick
    inv = ["TypeOK", "CopiesDisjoint", "FibresPartition", "Emit"]
    k = dict(MinRank=1, MaxRank=3 if q else 4, MaxDim=3, MaxDimHi=2, HiRank=3 if q else 4, LayA={S(x) for x in LAYS2},
             Kinds={S("Reduce"), S("Arg")})
    cases = c.tlc("MC_reduce", "reduce", k, inv)
    c.replay("reduce", cases, dtypes="ordered,complex128,string", pals="ident,signed,edge,nonfinite", rotate=6 if q else 0,
             extra=["-ops", "all", "-entries", "func,method"] + (["-palrotate", "2"] if q else []))
    # rank 4 with axes of length 3 (the middle-axis kernels step over blocks whose size depends on the reduced length)
    k4 = dict(MinRank=4, MaxRank=4, MaxDim=3, MaxDimHi=3, HiRank=4, LayA={S("C")} if q else {S("C"), S("T"), S("Col")}, Kinds={S("Reduce"), S("Arg")})
    cases = c.tlc("MC_reduce", "reduce-r4", k4, inv)
    c.replay("reduce-r4", cases, dtypes="float64,int16,uint8,complex128", pals="ident,signed", rotate=1 if q else 0,
             extra=["-ops", "all", "-entries", "func,method"] + (["-oprotate", "2", "-palrotate", "1"] if q else []))
    c.rep.rule = ("TLC enumerates shapes of rank 1-4 (rank 4 with every axis length 1-3) x operand layouts {contiguous, lazily transposed, window, inner slice, step slice, "
                  "materialised} x every non-empty axis set in every order of listing (and the empty list) for the folds, every single axis "
                  "and all-axes for the arg-reductions; the fold is the placeholder OP, substituted by Sum/Max/Min/generic Reduce and "
                  "Argmax/Argmin for all ordered element types (complex for Sum) with palettes containing ties, negatives, overflow and "
                  "non-finite values; result shape, every element (left fold of the fibre in logical order; first index of the extreme), "
                  "the operand, its backing and the caller's axes slice are compared")
    c.rep.assumptions = ["a refusal is accepted for any input (the statement allows refusing unsupported layouts)",
                         "sums of non-integer floats are compared within 8 ulp (accumulation order is not specified); NaN in arg-reductions is left open"]


def check_C09(c):
    q = c.quick
    inv = ["TypeOK", "CopiesDisjoint", "Emit"]
    lay = ("C", "T", "Col", "Row", "ColT", "TCol", "TClone") if q else ("C", "T", "Tp", "Row", "Col", "Step", "Mat", "ColT", "StepT", "TCol", "TClone", "TView")
    jobs = [("linalg-mat", dict(MaxDim=2 if q else 3, MaxRankT=2, LayA={S(x) for x in lay}, LayB={S(x) for x in lay}, LayD={S("C")}, Chain=False,
                                Modes={S("safe"), S("reuse"), S("incr")},
                                Kinds={S(x) for x in ("MatMul", "MatVecMul", "Inner", "Outer", "Trace")})),
            ("linalg-tensor", dict(MaxDim=2, MaxRankT=3, LayA={S(x) for x in (("C", "T", "Col") if q else lay)},
                                   LayB={S(x) for x in (("C", "Col") if q else lay)}, LayD={S("C")}, Chain=False, Modes={S("safe")},
                                   Kinds={S("TensorMul"), S("Dot")})),
            # destinations with a layout of their own (a lazily transposed tensor, a view, a window) for reuse and incr
            ("linalg-dest", dict(MaxDim=3, MaxRankT=2, LayA={S("C"), S("T")}, LayB={S("C"), S("Col")}, LayD={S(x) for x in ("T", "Col", "Row", "Step")},
                                 Chain=False, Modes={S("reuse"), S("incr")}, Kinds={S(x) for x in ("MatMul", "MatVecMul", "Outer")})),
            # a reuse tensor of the right size but another shape (re-laid-out by the library), and the result used again
            ("linalg-chain", dict(MaxDim=3, MaxRankT=2, LayA={S("C"), S("T")}, LayB={S("C")}, LayD={S(x) for x in ("C", "Crev", "Tpend", "T")},
                                  Chain=True, Modes={S("safe"), S("reuse")}, Kinds={S(x) for x in ("MatMul", "Outer")}))]
    # rank-4 operands (dims <= 2) in general contractions
    jobs.append(("linalg-tensor4", dict(MaxDim=2, MaxRankT=4, LayA={S("C")}, LayB={S("C")} if q else {S("C"), S("T")}, LayD={S("C")}, Chain=False, Modes={S("safe")},
                                        Kinds={S("TensorMul4")})))
    if not q:
        jobs.append(("linalg-mat4", dict(MaxDim=4, MaxRankT=2, LayA={S("C"), S("T"), S("Col")}, LayB={S("C"), S("T"), S("Col")}, LayD={S("C")}, Chain=False,
                                         Modes={S("safe"), S("reuse"), S("incr")}, Kinds={S("MatMul"), S("MatVecMul"), S("Outer")})))
    for name, k in jobs:
        cases = c.tlc("MC_linalg", name, k, inv)
        # (the chained products square the magnitudes: the overflow-edge palette has no exact oracle there)
        c.replay(name, cases, dtypes="floatcomplex", pals="ident,signed" + ("" if q or name == "linalg-chain" else ",edge"), rotate=2 if q else 0,
                 extra=["-entries", "func,method"] + (["-palrotate", "1"] if q else []))
    c.rep.rule = ("TLC enumerates operand shape combinations (vector forms (n),(n,1),(1,n); matrices; rank-3 operands with every valid "
                  "single and double contraction axis pair; the Dot dispatch; Trace) x an independent layout per operand x {safe, reuse, "
                  "incr}; the specification gives every result element as a sum of products over the contracted indices of the operands' "
                  "logical elements; the replayer executes float32/float64/complex64/complex128, compares integer-valued results exactly "
                  "and others within n*eps*sum|x_i*y_i|, and compares every operand and backing afterwards")
    c.rep.assumptions = ["a refusal is accepted for any combination (the statement allows refusing unsupported combinations loudly); a panic is not a refusal"]


def assemble_jobs(q):
    lay = ("C", "T", "Col", "Step") if q else ("C", "T", "Tp", "Row", "Col", "Step", "Mat")
    lay1 = lay + ("ColT", "TCol", "TClone", "TView")       # single-operand job: composite layouts too
    jobs = [("asm-concat", dict(MinRank=1, MaxRank=2 if q else 3, MaxDim=2, MaxDimHi=2, HiRank=3, Lays={S(x) for x in lay},
                                MaxOps=3 if q else 3, Kinds={S("Concat"), S("ConcatMismatch")}, RepCounts={0, 1, 2})),
            ("asm-stack", dict(MinRank=1, MaxRank=2 if q else 3, MaxDim=2, MaxDimHi=2, HiRank=3, Lays={S(x) for x in lay},
                               MaxOps=3, Kinds={S("Stack")}, RepCounts={0, 1, 2})),
            ("asm-repeat", dict(MinRank=1, MaxRank=3 if q else 4, MaxDim=3, MaxDimHi=2, HiRank=3 if q else 4,
                                Lays={S(x) for x in lay1}, MaxOps=1, Kinds={S("Repeat")}, RepCounts={0, 1, 2}))]
    if not q:
        jobs.append(("asm-concat4", dict(MinRank=1, MaxRank=2, MaxDim=2, MaxDimHi=2, HiRank=3, Lays={S("C"), S("T"), S("Col")},
                                         MaxOps=4, Kinds={S("Concat"), S("Stack")}, RepCounts={1})))
    return jobs


def check_C10(c):
    q = c.quick
    inv = ["TypeOK", "CopiesDisjoint", "OperandsIntact", "Emit"]
    for name, k in assemble_jobs(q):
        cases = c.tlc("MC_assemble", name, k, inv)
        c.replay(name, cases, dtypes="sizes", pals="ident", rotate=2 if q else 0, extra=["-entries", "func,method"])
    c.rep.rule = ("TLC enumerates 1-4 operands x shapes of rank 1-4 x every axis (valid, and one past the last) x an independent layout per "
                  "operand for Concat (incl. Hstack/Vstack through the methods) and Stack, operand lists whose shapes do not fit, and Repeat "
                  "with uniform and per-element counts including zero and a wrong number of counts, along every axis and flattened; results "
                  "are pure copies of operand cells placed as NumPy's concatenate/stack/repeat define; element sizes 1,2,4,8,16 bytes and "
                  "strings; operands (shape, elements, backing) are compared afterwards")
    c.rep.assumptions = ["a repeat that leaves no element is left open (the library has no empty tensors)", "a refusal of a fitting input is accepted"]


def check_C14(c):
    q = c.quick
    inv = ["TypeOK", "CopiesDisjoint", "Emit"]
    lays = ("C", "F", "T", "Row", "Col", "FCol", "FT", "Step") if q else ("C", "F", "Fconv", "T", "Tp", "FT", "Row", "Col", "Step", "FCol", "ColT", "TCol")
    k = dict(MinRank=0, MaxRank=3 if q else 4, MaxDim=3 if q else 3, MaxDimHi=2, HiRank=3 if q else 4, Lays={S(x) for x in lays},
             Formats={S(x) for x in ("gob", "npy", "csv", "pb", "fb")}, WithMasks=True)
    cases = c.tlc("MC_io", "io", k, inv)
    c.replay("io", cases, dtypes="all", pals="ident,signed,edge,nonfinite", rotate=6 if q else 0, extra=(["-palrotate", "2"] if q else []))
    c.rep.rule = ("TLC enumerates {gob, npy, csv, protobuf, flatbuffers} x shapes of rank 0-4 incl. scalars and length-one axes x layouts "
                  "{contiguous, column-major, lazily transposed (row- and column-major), contiguous window, inner slice (of a row- and of a "
                  "column-major base), step slice (thorough: more)} and every mask over <=6 "
                  "elements; the real encoder/decoder pair is run for every element type with palettes containing extremes and non-finite "
                  "values; the decoded tensor must have the same element type, shape, logical elements (and mask where the format carries "
                  "one; the fill value otherwise), or the ENCODER must refuse; bytes that cannot be decoded are a divergence")
    c.rep.assumptions = ["byte-level format fidelity (e.g. that NumPy itself reads the .npy bytes) is outside the model: only the round trip is checked",
                         "csv is read back with As(<element type>)"]


FLAYS = ("F", "FT", "FCol", "Fconv")


def check_C16(c):
    q = c.quick
    mixed = ("C", "F", "FT", "FCol") if q else ("C", "T", "Col", "F", "FT", "FCol", "Fconv")
    # elementwise: every operand and reuse destination independently column-major
    for kinds, name, dts, ops in ((["Arith"], "f-arith", "numeric", "add,sub,div,pow,max"), (["Cmp"], "f-cmp", "ordered", "lt,gte,eq"),
                                  (["Unary"], "f-unary", "float64,int32,complex64", "neg,sqrt,clamp,apply")):
        k = elem_consts(q, kinds, laya=mixed, layb=mixed, modes=("safe", "unsafe", "reuse", "incr"), layd=("C", "F"), mismatch=False,
                        MinRank=1, MaxRank=2 if q else 3, MaxDim=3, HiRank=3)
        cases = c.tlc("MC_elem", name, k, ELEM_INV)
        c.replay(name, cases, dtypes=dts, pals="ident,signed", rotate=2 if q else 0,
                 extra=["-ops", ops, "-entries", "func,method"] + (["-oprotate", "2", "-palrotate", "1"] if q else []))
    # reductions
    k = dict(MinRank=1, MaxRank=3, MaxDim=3, MaxDimHi=2, HiRank=3, LayA={S(x) for x in FLAYS}, Kinds={S("Reduce"), S("Arg")})
    cases = c.tlc("MC_reduce", "f-reduce", k, ["TypeOK", "Emit"])
    c.replay("f-reduce", cases, dtypes="float64,int16,uint8", pals="ident,signed", rotate=1 if q else 0, extra=["-ops", "all"])
    # products
    k = dict(MaxDim=2 if q else 3, MaxRankT=2, LayA={S(x) for x in ("C", "F", "FT")}, LayB={S(x) for x in ("C", "F", "FT")}, LayD={S("C")}, Chain=False,
             Modes={S("safe"), S("reuse"), S("incr")}, Kinds={S(x) for x in ("MatMul", "MatVecMul", "Inner", "Outer", "Trace")})
    cases = c.tlc("MC_linalg", "f-linalg", k, ["TypeOK", "Emit"])
    c.replay("f-linalg", cases, dtypes="floatcomplex", pals="ident,signed", rotate=2 if q else 0, extra=["-entries", "func,method"])
    # assembly
    for name, k in assemble_jobs(True):
        k = dict(k, Lays={S(x) for x in ("C", "F", "FT")})
        cases = c.tlc("MC_assemble", "f-" + name, k, ["TypeOK", "Emit"])
        c.replay("f-" + name, cases, dtypes="sizes", pals="ident", rotate=1 if q else 0, extra=["-entries", "func,method"])
    # copies, conversion, access, slicing, transposition of column-major tensors
    W = {S(x) for x in ("Memset", "Zero", "UnsafeUn", "SetSweep", "SetAt", "Copy")}
    C = {S(x) for x in ("Clone", "Materialize", "SafeT", "CopyInto", "Native", "Mat64")}
    k = dict(MinRank=1, MaxRank=3, MaxDim=3, MaxDimHi=2, HiRank=3, Ctors={S("F"), S("Fconv")}, ViewDepth=1, RichPalette=False, Writes=W, Copies=C)
    cfgp = c.scr.path("f-views.cfg")
    write_cfg(cfgp, consts=k, invariants=["TypeOK", "Emit"], properties=["Frame"])
    cases = c.scr.path("f-views.cases.ndjson")
    r = run_tlc(c.scr, "MC_views", cfgp, cases)
    c.rep.add_tlc("f-views", r)
    c.replay("f-views", cases, dtypes="all", pals="ident", rotate=2 if q else 0)
    # serialisation of column-major tensors (also masked ones)
    k = dict(MinRank=1, MaxRank=3, MaxDim=3, MaxDimHi=2, HiRank=3, Lays={S(x) for x in FLAYS},
             Formats={S(x) for x in ("gob", "npy", "csv", "pb", "fb")}, WithMasks=True)
    cases = c.tlc("MC_io", "f-io", k, ["TypeOK", "Emit"])
    c.replay("f-io", cases, dtypes="float64,int8,uint16,complex64,string", pals="ident,signed", rotate=2 if q else 0, extra=(["-palrotate", "1"] if q else []))
    # mixed-order Copy
    k = dict(MinRank=1, MaxRank=3, MaxDim=3, MaxDimHi=2, HiRank=3, Lays={S("C"), S("F"), S("FT")})
    cases = c.tlc("MC_copy", "f-copy", k, ["TypeOK", "Emit"])
    c.replay("f-copy", cases, dtypes="sizes", pals="ident", rotate=2 if q else 0)
    c.rep.rule = ("the operation families of C04, C06-C12 re-enumerated by TLC with each operand and reuse destination independently "
                  "column-major (declared, converted, lazily transposed column-major, inner slice of a column-major base), alone and mixed "
                  "with row-major operands; the Level-1 oracle does not mention data order, which is the property; refusal accepted")
    c.rep.assumptions = ["Reshape follows the tensor's own data order and is checked under C13", "a divergence that needs a column-major operand is attributed here"]


def check_C20(c):
    q = c.quick
    # corpora (TLC runs once per corpus; every configuration replays the same behaviours against the same Level-1 result)
    lay = ("C", "T", "Col", "Step")
    corp = []
    k = elem_consts(q, ["Arith", "FMA"], laya=lay, layb=("C", "T", "Col"), modes=("safe", "unsafe", "reuse", "incr", "reuseA", "reuseB"), layd=("C", "Col"),
                    mismatch=False, MinRank=1, MaxRank=2 if q else 3, MaxDim=3, HiRank=3)
    corp.append(("cfg-arith", "MC_elem", k, ELEM_INV, ["-ops", "add,sub,mul,div,pow,mod", "-entries", "func,method"]))
    k = dict(MaxDim=2 if q else 3, MaxRankT=2, LayA={S(x) for x in ("C", "T", "Col")}, LayB={S(x) for x in ("C", "T", "Col")}, LayD={S("C")}, Chain=False,
             Modes={S("safe"), S("reuse"), S("incr")}, Kinds={S(x) for x in ("MatMul", "MatVecMul", "Inner", "Outer")})
    corp.append(("cfg-linalg", "MC_linalg", k, ["TypeOK", "Emit"], ["-entries", "func,method"]))
    k = dict(MinRank=0, MaxRank=3, MaxDim=3, MaxDimHi=2 if q else 3, HiRank=3, Ctors={S("C")}, MaxLen=2, WithSlice=False, PermPalette=False,
             Alphabet={S(x) for x in ("T", "UT", "Transpose", "Materialize", "SafeT")}, BothTargets=False)
    corp.append(("cfg-trans", "MC_trans", k, ["TypeOK", "Emit"], []))
    k = dict(MinRank=0, MaxRank=3, MaxDim=3, MaxDimHi=2, HiRank=3, Ctors={S("C")}, ViewDepth=1, Mode=S("flat"), Lays={S("C")})
    corp.append(("cfg-iter", "MC_iter", k, ["TypeOK", "Emit"], []))
    k = {"MaxRank": 3, "MaxDim": 3, "MaxDim4": 2, "Ctors": {S("C")}, "Rich": False, "Deep": False}
    corp.append(("cfg-addr", "MC_addr", k, ["TypeOK", "Emit"], []))
    configs = [(("verif",), ""), (("verif",), "f64"), (("verif",), "f32"),
               (("verif", "noasm"), ""), (("verif", "noasm"), "f64"), (("verif", "noasm"), "f32"),
               (("verif", "inplacetranspose"), ""), (("verif", "inplacetranspose"), "f64")]
    for name, module, k, inv, extra in corp:
        cases = c.tlc(module, name, k, inv)
        for tags, eng in configs:
            if eng and name in ("cfg-addr",):
                continue
            dts = {"": "float32,float64", "f64": "float64", "f32": "float32"}[eng]
            if not eng and name in ("cfg-trans", "cfg-iter", "cfg-addr"):
                dts = "float64,int16"
            c.replay("%s:%s:%s" % (name, "+".join(tags[1:]) or "default", eng or "std"), cases, tags=tags, dtypes=dts,
                     pals="ident,signed", engine=eng, rotate=0, extra=extra + (["-oprotate", "2", "-palrotate", "1"] if q else []))
    c.rep.rule = ("the behaviour corpora of C03 (transposes), C06/C07 (arithmetic incl. fused multiply-add, all option modes), C09 (products) "
                  "and C01/C05 (index arithmetic) are enumerated once by TLC and replayed under engines {default, Float32Engine, "
                  "Float64Engine} x builds {default, noasm, inplacetranspose}; every configuration is compared with the same Level-1 result "
                  "(values, operands, destinations, returned tensor), hence with each other")
    c.rep.assumptions = ["the specialised engines are exercised on their own element type only", "refusal accepted where the default engine's check accepts it"]


GEN_FILES = ("internal/execution/", "array_getset.go", "dense_maskcmp_methods.go", "dense_generated.go", "native/",
             "internal/storage/getset.go", "dense_compat.go")


def function_coverage(covdir):
    """function coverage of the generated sources, from a binary built with -cover"""
    p = subprocess.run(["go", "tool", "covdata", "func", "-i=" + covdir], env=GOENV, capture_output=True, text=True, cwd=HARNESS)
    if p.returncode != 0:
        raise Infra("go tool covdata failed: " + p.stderr[-2000:])
    groups, unreached = {}, []
    for line in p.stdout.splitlines():
        m = re.match(r"(\S+?):(\d+):\s+(\S+)\s+([\d.]+)%", line)
        if not m:
            continue
        path, fn, pct = m.group(1), m.group(3), float(m.group(4))
        if not path.startswith("gorgonia.org/tensor/"):
            continue
        rel = path.split("gorgonia.org/tensor/", 1)[1]
        g = next((x for x in GEN_FILES if rel.startswith(x)), None)
        if g is None or rel.endswith("_test.go"):
            continue
        tot, cov = groups.get(g, (0, 0))
        groups[g] = (tot + 1, cov + (1 if pct > 0 else 0))
        if pct == 0:
            unreached.append(rel + ":" + fn)
    return groups, unreached


def check_C17(c):
    q = c.quick
    covdir = c.scr.path("cover")
    os.makedirs(covdir, exist_ok=True)
    binary = build_harness(c.scr, tags=("verif",), cover=True)
    env = dict(GOENV, GOCOVERDIR=covdir)

    def rp(name, cases, **kw):
        kw.setdefault("seed", c.seed)
        stats, divs, samples = run_replay(c.scr, binary, cases, cfgname="default", env=env, **kw)
        c.rep.add_replay(name, stats, divs, samples)
        log("replay %s: %d executions, %d divergences" % (name, stats.get("execs", 0), len(divs)))

    lays = {S("C"), S("T"), S("Col")}
    for fam in ("arith", "cmp", "unary", "reduce", "reduce4", "maskedarg"):
        cases = c.tlc("MC_interp", "interp-" + fam, dict(ShapeId=S("q" if q else "t"), Lays=lays, Family=S(fam)), ["TypeOK", "Emit"])
        rp("interp-" + fam, cases, dtypes="numeric", pals="interp", extra=["-entries", "func,method"])
    # breadth for the measured coverage: masking predicates, typed getters/setters, native conversions, Apply/unary maths
    cases = c.tlc("MC_mask", "cov-pred", mask_consts(True, "pred"), ["TypeOK", "Emit"])
    rp("cov-pred", cases, dtypes="all", pals="ident")
    k = {"MaxRank": 2, "MaxDim": 2, "MaxDim4": 2, "Ctors": {S("C")}, "Rich": False, "Deep": False}
    cases = c.tlc("MC_addr", "cov-getset", k, ["TypeOK", "Emit"])
    rp("cov-getset", cases, dtypes="all", pals="ident")
    W = {S(x) for x in ("Memset", "Zero")}
    C = {S(x) for x in ("Native", "Mat64", "Clone")}
    k = dict(MinRank=1, MaxRank=3, MaxDim=2, MaxDimHi=2, HiRank=3, Ctors={S("C")}, ViewDepth=0, RichPalette=False, Writes=W, Copies=C)
    cases = c.tlc("MC_views", "cov-native", k, ["TypeOK", "Emit"])
    rp("cov-native", cases, dtypes="all", pals="ident")
    k = elem_consts(True, ["Unary", "Arith", "Cmp"], laya=("C", "Col"), layb=("C", "Col"), modes=("safe", "unsafe", "reuse", "incr"), layd=("C",),
                    mismatch=False, MinRank=1, MaxRank=2, MaxDim=3 if not q else 2, MaxDimHi=2, HiRank=3)
    cases = c.tlc("MC_elem", "cov-elem", k, ["TypeOK", "Emit"])
    rp("cov-elem", cases, dtypes="all", pals="ident,signed", extra=["-ops", "all", "-entries", "func,method"])
    k = dict(MinRank=1, MaxRank=2, MaxDim=3, MaxDimHi=2, HiRank=3, LayA={S("C"), S("Col")}, Kinds={S("Reduce"), S("Arg")})
    cases = c.tlc("MC_reduce", "cov-reduce", k, ["TypeOK", "Emit"])
    rp("cov-reduce", cases, dtypes="all", pals="ident,signed", extra=["-ops", "all", "-entries", "func,method"])
    groups, unreached = function_coverage(covdir)
    tot = sum(t for t, _ in groups.values())
    cov = sum(v for _, v in groups.values())
    c.rep.extra["coverage"] = {
        "function_coverage_of_generated_sources": {g: {"functions": t, "reached": v} for g, (t, v) in sorted(groups.items())},
        "functions_total": tot, "functions_reached": cov,
        "unreached_functions_sample": unreached[:60], "unreached_count": len(unreached)}
    log("function coverage of the generated sources: %d / %d" % (cov, tot))
    if tot == 0 or cov * 100 < tot * 40:
        raise Infra("function coverage of the generated sources is implausibly low (%d/%d): the measurement is broken" % (cov, tot))
    c.rep.rule = ("TLC enumerates the generated operation families with CONCRETE operators x the kernel variants {vector-vector, vector-scalar, "
                  "scalar-vector, incr, iterator, iterator-incr, same-type} and evaluates every expected element ITSELF over the integers "
                  "(spec/Interp.tla, the one type-generic definition); the replayer runs each behaviour for every numeric element type that "
                  "represents the operands and results exactly and demands these integers after conversion - hence any two element types "
                  "agree. The replay binary is built with -cover over gorgonia.org/tensor/... and the function coverage of the generated "
                  "sources reached by this run is measured and reported")
    c.rep.assumptions = ["inexact division and functions without an integer meaning (sqrt, exp, ...) are covered per type under C12 only",
                         "coverage is reported, and only used to reject a broken measurement (<40%)"]


def check_C19(c):
    q = c.quick
    runs = [("float64", 400 if q else 4000, 60 if q else 200), ("int", 200 if q else 2000, 60 if q else 200)]
    if not q:
        runs.append(("float32", 1000, 120))
    outdir = os.path.join(OUT, c.pid)
    traces_total = 0
    for i, (dt, traces, steps) in enumerate(runs):
        seed = c.seed * 7 + i + 1
        events, states, mm, tr = record_and_validate(c.scr, "c19-%s" % dt, seed, traces, steps, dtype=dt)
        c.rep.states += states
        c.rep.transitions += events
        c.rep.execs += traces
        c.rep.calls += events
        c.rep.compared += events
        c.rep.nontrivial += traces
        traces_total += traces
        c.rep.parts.append({"trace_run": dt, "seed": seed, "traces": traces, "events": events, "tlc_states": states,
                            "accepted": mm is None})
        log("trace run %s seed %d: %d traces, %d events, %s" % (dt, seed, traces, events, "accepted" if mm is None else "REJECTED at line %d" % mm["line"]))
        if not c.rep.samples:
            with open(tr) as f:
                c.rep.samples = [json.loads(next(f)) for _ in range(4)][1:]
        if mm:
            ops, ev, window = trace_context(tr, mm["line"])
            os.makedirs(outdir, exist_ok=True)
            keep = os.path.join(c.scr.path("keep-%s.json" % dt))
            rec = {"cmd": "record", "seed": seed, "traces": traces, "steps": steps, "dtype": dt, "line": mm["line"], "events": window,
                   "div": {"case": "trace", "fam": "trace", "dt": dt, "pal": "interp", "cfg": "default", "step": len(ops),
                           "op": ev["op"]["k"], "kind": "trace-mismatch" if not ev.get("note") else "trace-anomaly",
                           "detail": (ev.get("note") or "") + " | TLC: " + mm["detail"], "path": "; ".join(ops + ["%s(h%d,%s)" % (ev["op"]["k"], ev["op"]["h"], json.dumps(ev["op"]["a"]))]),
                           "tags": []},
                   "case": {"trace": "see events"}}
            c.rep.divs.append(rec)
    # direction A: the caller-slice watch and the every-live-tensor comparison also run on TLC-generated behaviours
    k = dict(MinRank=1, MaxRank=3, MaxDim=3, MaxDimHi=2, HiRank=3, Ctors={S("C")}, MaxLen=3 if not q else 2, WithSlice=False, PermPalette=True,
             Alphabet={S(x) for x in ("T", "UT", "Transpose", "SafeT", "RollAxis")}, BothTargets=False)
    cases = c.tlc("MC_trans", "hist-trans", k, ["TypeOK", "Emit"])
    c.replay("hist-trans", cases, dtypes="float64,int8", pals="ident", rotate=1 if q else 0)
    # a shallow clone handed back to the pools (followed by foreign pool users) between the transposition steps: the
    # operand's pending transposition, its saved access pattern and its axes must survive (they belong to the operand)
    k = dict(MinRank=2, MaxRank=3, MaxDim=3, MaxDimHi=2 if q else 3, HiRank=3, Ctors={S("C")}, MaxLen=3 if q else 4, WithSlice=False, PermPalette=True,
             Alphabet={S(x) for x in ("T", "UT", "Transpose", "ShallowReturn")}, BothTargets=False)
    cases = c.tlc("MC_trans", "hist-shallow", k, ["TypeOK", "Emit"])
    c.replay("hist-shallow", cases, dtypes="float64,int8", pals="ident")
    k = dict(MinRank=1, MaxRank=3, MaxDim=3, MaxDimHi=2, HiRank=3, LayA={S("C"), S("T"), S("Col")}, Kinds={S("Reduce"), S("Arg")})
    cases = c.tlc("MC_reduce", "hist-reduce", k, ["TypeOK", "Emit"])
    c.replay("hist-reduce", cases, dtypes="float64", pals="ident", extra=["-ops", "all"])
    # safe unary operations / Apply on masked tensors: the operand (and its caller-owned mask) stay as they are
    cases = c.tlc("MC_mask", "hist-maskunary", mask_consts(True, "unary"), ["TypeOK", "Emit"])
    c.replay("hist-maskunary", cases, dtypes="float64,int32", pals="ident", extra=["-ops", "neg,apply,square"])
    k = dict(MaxDim=2, MaxRankT=3, LayA={S("C")}, LayB={S("C")}, LayD={S("C")}, Chain=False, Modes={S("safe")}, Kinds={S("TensorMul")})
    cases = c.tlc("MC_linalg", "hist-tensormul", k, ["TypeOK", "Emit"])
    c.replay("hist-tensormul", cases, dtypes="float64", pals="ident", extra=["-entries", "func,method"])
    c.rep.exhaustive = False
    c.rep.rule = ("direction B (trace validation): a seeded recorder runs random programs of up to 60 (thorough 200) operations over a "
                  "population of 2-8 live tensors on the real library - construction, slicing, lazy/physical transposes, reshape, "
                  "arithmetic/unary/comparison with safe/unsafe/reuse/incr, reductions, products, concat/stack/repeat, copies, ReturnTensor "
                  "and pool churn by a foreign user that scribbles over borrowed int slices - and logs after EVERY call the observation of "
                  "EVERY live tensor, every caller backing, every caller-owned argument slice and the pool hook events; TLC checks each "
                  "log against spec/Trace.tla (the same Apply as all other configurations, value terms evaluated by Interp.tla) line by "
                  "line, incl. the pool protocol (no slice returned twice). direction A: caller-owned argument slices are watched over "
                  "whole TLC-generated behaviours of the transposition, reduction and contraction families")
    c.rep.assumptions = ["the recorder does not generate the inputs of listed findings (see known_findings.json) nor overlapping source/destination pairs",
                         "use of a tensor after handing it to ReturnTensor is a caller error and never generated",
                         "values stay below 2^31 (TLC integers)"]


def conc_module(writeset, poolseq, nprocs, proglen):
    """MC_conc.tla generated from what was MEASURED on the real code (hook events of every operation of the alphabet run
    alone): its writes to shared operands and its pool traffic.  This is the binding of spec/Conc.tla to the implementation."""
    shared = sorted({w[1] for ws in writeset.values() for w in ws if w[0] == "wr" and w[1] != "?"} | {"M"})
    classes = {}
    for op, ws in sorted(writeset.items()):
        steps = ['<<"rd", "M">>']
        for w in ws:
            if w[0] != "wr":
                continue
            x = w[1] if w[1] != "?" else "M"
            val = 0 if w[2].endswith(":UT") else 1
            steps.append('<<"wr", "%s", %d>>' % (x, val))
            steps.append('<<"rd", "%s">>' % x)
        seq = [[k, "Dense" if kind == "Tensor" else kind, slot] for k, kind, slot in poolseq.get(op, [])]
        returned = {(kind, slot) for k, kind, slot in seq if k == "put"}
        seq = [e for e in seq if (e[1], e[2]) in returned and e[2] <= 8][:10]   # objects the operation never gives back are its results
        for k, kind, slot in seq:
            steps.append('<<"%s", "%s", %d>>' % (k, kind, slot))
        steps.append('<<"rd", "M">>')
        classes.setdefault("<<" + ", ".join(steps) + ">>", []).append(op)
    reps = {v[0]: k for k, v in classes.items()}      # one representative operation per distinct step list
    names = sorted(reps)
    rec = ", ".join('%s |-> %s' % (n, reps[n]) for n in names)
    progs = set()
    import itertools
    for L in range(1, proglen + 1):
        for t in itertools.product(names, repeat=L):
            progs.add("<<" + ", ".join('"%s"' % x for x in t) + ">>")
    text = """---- MODULE MC_conc ----
EXTENDS Conc
MCProcs == 1..%d
MCShared == {%s}
MCOpSteps == [%s]
MCProgramSet == {%s}
====
""" % (nprocs, ", ".join('"%s"' % x for x in shared), rec, ", ".join(sorted(progs)))
    return text, classes


def check_C18(c):
    q = c.quick
    # (1) write-set conformance: what each read-only operation writes to SHARED operands, measured with the hooks
    plain = build_harness(c.scr, tags=("verif",), cmd="conc")
    p = subprocess.run([plain, "-mode", "writeset"], capture_output=True, text=True, env=GOENV, timeout=600)
    if p.returncode != 0:
        raise Infra("conc writeset failed: " + p.stderr[-2000:])
    measured = json.loads(p.stdout.strip().splitlines()[-1])
    writeset, poolseq = measured["writes"], measured["pool"]
    # (2) the interleavings of the model built from those measurements
    text, classes = conc_module(writeset, poolseq, 2, 2 if q else 3)
    wd = c.scr.path("conc")
    os.makedirs(wd, exist_ok=True)
    with open(os.path.join(SPEC, "MC_conc.tla.generated"), "w") as f:
        pass
    os.remove(os.path.join(SPEC, "MC_conc.tla.generated"))
    gen = c.scr.path("MC_conc.tla")
    with open(gen, "w") as f:
        f.write(text)
    cfg = c.scr.path("MC_conc.cfg")
    with open(cfg, "w") as f:
        f.write("SPECIFICATION Spec\nCONSTANTS\n  Procs <- MCProcs\n  Shared <- MCShared\n  OpSteps <- MCOpSteps\n  ProgramSet <- MCProgramSet\n"
                "INVARIANTS SharedNeverWritten NoReadDuringForeignWrite ResultsSequential PoolExclusive\nCHECK_DEADLOCK FALSE\n")
    tw = c.scr.path("tlc-conc")
    os.makedirs(tw, exist_ok=True)
    for fn in os.listdir(SPEC):
        if fn.endswith(".tla"):
            shutil.copy(os.path.join(SPEC, fn), tw)
    shutil.copy(gen, tw)
    shutil.copy(cfg, tw)
    env = dict(os.environ)
    env.pop("JAVA_TOOL_OPTIONS", None)
    r = subprocess.run(["java", "-Djava.io.tmpdir=" + tw, "-Xmx4g", "-cp", TLA_CP, "tlc2.TLC", "-workers", str(NPROC), "-metadir", os.path.join(tw, "md"),
                        "-config", "MC_conc.cfg", "MC_conc.tla"], cwd=tw, capture_output=True, text=True, env=env, timeout=900)
    m = re.search(r"(\d+) states generated, (\d+) distinct states found", r.stdout)
    if not m:
        raise Infra("TLC on MC_conc produced no state count:\n" + r.stdout[-2000:])
    c.rep.transitions += int(m.group(1))
    c.rep.states += int(m.group(2))
    writers = {op: ws for op, ws in writeset.items() if ws}
    c.rep.parts.append({"conc_model": "MC_conc generated from the measured write-sets and pool traffic", "operations": len(writeset),
                        "step_list_classes": {k: v for k, v in classes.items()}, "tlc_states": int(m.group(2)),
                        "operations_that_write_shared_operands": writers})
    outdir = os.path.join(OUT, c.pid)
    violated = re.search(r"Invariant (\w+) is violated", r.stdout)
    if violated or writers:
        # the verdict comes from the real code: the hooks recorded a write to a shared operand
        for op, ws in writers.items():
            c.rep.divs.append({"cmd": "conc", "div": {"case": "writeset", "fam": "conc", "dt": "float64", "pal": "-", "cfg": "default", "step": 0,
                               "op": op, "kind": "pool-protocol" if all(w[0] == "pool" for w in ws) else "shared-write",
                               "detail": "running %s alone, the hooks recorded: %s; TLC on the model built from these measurements (writes to "
                                         "shared operands and pool traffic): %s" % (op, ws[:3], "invariant %s violated" % violated.group(1) if violated else "no invariant violated"),
                               "path": op, "tags": []}, "case": {"writeset": ws}})
    elif "No error has been found" not in r.stdout:
        raise Infra("TLC on MC_conc did not complete:\n" + r.stdout[-2000:])
    # (3) monitoring under the race detector: randomly generated programs and the pairwise stress of the alphabet
    race = build_harness(c.scr, tags=("verif",), cmd="conc", race=True)
    runs = []
    for procs in (1, 2, 4, 16):
        runs.append(["-mode", "monitor", "-g", str(2 + (c.seed + procs) % 7 if q else 16), "-n", "30" if q else "80", "-rounds", "6" if q else "40",
                     "-procs", str(procs), "-seed", str(c.seed * 13 + procs)])
    runs.append(["-mode", "stress", "-g", "3" if q else "4", "-n", "8" if q else "20", "-procs", "4", "-seed", str(c.seed)])
    if not q:
        runs.append(["-mode", "stress", "-g", "8", "-n", "12", "-procs", "16", "-seed", str(c.seed + 1)])
    for args in runs:
        env2 = dict(GOENV, GORACE="halt_on_error=0 exitcode=0 history_size=3")
        # a run on a healthy tree takes seconds; a tree that corrupts shared state may spin: bounded, and what it printed
        # until then is still an observation of the code
        pp = subprocess.Popen([race] + args, stdout=subprocess.PIPE, stderr=subprocess.STDOUT, text=True, env=env2)
        try:
            out, _ = pp.communicate(timeout=240 if q else 1800)
            rcode = pp.returncode
        except subprocess.TimeoutExpired:
            pp.kill()
            out, _ = pp.communicate()
            rcode = -9
            out += "\nPANIC op=(timeout): the run did not finish\n" if ("PANIC op=" in out or "NONDETERMINISTIC" in out or "DATA RACE" in out) else ""
        if rcode not in (0,) and "WARNING: DATA RACE" not in out and "PANIC op=" not in out and "fatal error: concurrent map" not in out:
            raise Infra("conc monitor failed (exit %d): %s" % (rcode, out[-2000:]))
        m2 = re.search(r"(monitor|stress): .*nondeterministic=(\d+)", out)
        nrace = out.count("WARNING: DATA RACE")
        fatal = out.count("fatal error: concurrent map")      # the runtime kills the process: unsynchronised map access
        observed = out.count("PANIC op=") + out.count("NONDETERMINISTIC") + out.count("SHARED-CHANGED") + fatal
        if not m2 and not nrace and not observed:
            raise Infra("conc monitor produced no summary: " + out[-2000:])
        nd = int(m2.group(2)) if m2 else out.count("NONDETERMINISTIC") + out.count("SHARED-CHANGED")
        nd += out.count("PANIC op=") + out.count("fatal error: concurrent map")
        c.rep.execs += 1
        c.rep.calls += 1
        c.rep.nontrivial += 1
        c.rep.parts.append({"race_monitor": " ".join(args), "data_races": nrace, "nondeterministic_results": nd, "summary": m2.group(0) if m2 else "(aborted)"})
        log("conc %s: races=%d nondeterministic=%d" % (" ".join(args), nrace, nd))
        if nrace:
            blocks = out.split("WARNING: DATA RACE")[1:]
            seen = set()
            for b in blocks:
                frames = re.findall(r"gorgonia\.org/tensor[\w./()*]*", b)
                sig = tuple(frames[:4])
                if sig in seen:
                    continue
                seen.add(sig)
                c.rep.divs.append({"cmd": "conc", "args": args, "div": {"case": "race", "fam": "conc", "dt": "float64", "pal": "-", "cfg": "race",
                                   "step": 0, "op": "race", "kind": "data-race", "detail": " <- ".join(frames[:8]), "path": " ".join(args), "tags": []},
                                   "case": {"report": b[:3000]}})
        if nd:
            lines = [l for l in out.splitlines() if l.startswith(("NONDETERMINISTIC", "SHARED-CHANGED", "PANIC op="))]
            c.rep.divs.append({"cmd": "conc", "args": args, "div": {"case": "nondet", "fam": "conc", "dt": "float64", "pal": "-", "cfg": "race",
                               "step": 0, "op": "result", "kind": "nondeterministic", "detail": "; ".join(lines[:3])[:800], "path": " ".join(args), "tags": []},
                               "case": {"lines": lines[:20]}})
    c.rep.samples = [{"write_sets_measured": writeset, "pool_traffic_measured": {k: v[:10] for k, v in list(poolseq.items())[:12]}}, {"generated_module": text[:1500]}]
    c.rep.exhaustive = False
    c.rep.rule = ("(1) every operation of a %d-operation alphabet (element access, slicing, iteration, safe arithmetic and "
                  "comparison, reductions, products incl. the dispatching Dot, cloning, materialising, formatting, repeat/concat, and operations "
                  "on the goroutine's OWN tensors: reuse / reshaped-reuse / wrong-size reuse / incr destinations, in-place results, same-type "
                  "comparisons, products into own destinations, recycling own tensors through ReturnTensor, own views) is run ALONE on shared tensors {contiguous, lazily transposed, sliced view, vectors} with the metadata hooks "
                  "on, and its writes to shared operands and its traffic with the option / scalar-header / tensor-struct pools are recorded "
                  "(an object handed back twice is reported at once); (2) spec/Conc.tla is instantiated with exactly these measured step "
                  "lists (MC_conc, generated) and TLC explores every interleaving of 2 goroutines x programs of <=2 (thorough 3) operations, "
                  "checking SharedNeverWritten, NoReadDuringForeignWrite, ResultsSequential and PoolExclusive (no pooled object in the "
                  "hands of two goroutines); (3) 2-16 goroutines run seeded random programs over "
                  "the shared tensors plus private ones under the race detector with GOMAXPROCS in {1,2,4,16} and injected yields, every "
                  "result compared with the result of the same program run alone; plus a pairwise stress of all operation pairs") % len(writeset)
    c.rep.assumptions = ["that the code has no shared accesses other than the hooked metadata writes is observed by the Go race detector, not proved",
                         "goroutines that write a shared tensor are outside the property"]


def mask_consts(q, mode):
    suffix = "-q" if q else "-t"
    if mode == "iter":
        return dict(ShapeSetId=S("iter" + suffix), Mode=S("iter"), MaxMask=6 if q else 8)
    if mode == "inspect":
        return dict(ShapeSetId=S("inspect" + suffix), Mode=S("inspect"), MaxMask=8 if q else 10)
    return dict(ShapeSetId=S("other" + suffix), Mode=S(mode), MaxMask=6 if q else 8)


def check_C15(c):
    q = c.quick
    inv = ["TypeOK", "SteppingPartitions", "Emit"]
    for mode, dts, pals, extra in (("inspect", "float64,int8,string,bool", "ident", []),
                                   ("pred", "all", "ident,signed", []),
                                   ("through", "sizes", "ident", []),
                                   ("ops", "numeric", "ident,signed", ["-ops", "add,sub,mul,div,min,max"]),
                                   ("arg", "ordered", "ident,signed", []),
                                   ("unary", "float64,int16,uint8", "ident,signed", ["-ops", "neg,apply,square,abs"]),
                                   ("iter", "float64,uint16", "ident", [])):
        cases = c.tlc("MC_mask", "mask-" + mode, mask_consts(q, mode), inv)
        c.replay("mask-" + mode, cases, dtypes=dts, pals=pals, rotate=(2 if q else 0), extra=extra + (["-oprotate", "2"] if q and extra else []))
    c.rep.rule = ("TLC enumerates EVERY mask over the elements of a set of shapes (scalar, vectors, matrices, rank 3; <=8 elements quick, "
                  "<=10 thorough) x {mask counts, any/all (flat and per axis), contiguous runs, edges, clumps, Filled with default and given "
                  "value}; every masking predicate x soft/hard x prior mask state for all element types; masks through slicing, lazy and "
                  "physical transposition, materialisation and cloning; masked operands in elementwise arithmetic (values compared at the "
                  "positions valid in all operands, result mask = union); Argmax/Argmin of masked tensors over all axes and per axis (masked "
                  "elements do not take part); masked valid/invalid/validity stepping in both directions. The "
                  "mask of every live tensor is read back with MaskAt at every coordinate and compared with the specification's mask")
    c.rep.assumptions = ["MaskedValues (floats, tolerance based) is not modelled", "values under masked positions of operation results are unconstrained"]


def check_C05(c):
    q = c.quick
    inv = ["TypeOK", "ForwardVisitsAll", "Emit"]
    k = dict(MinRank=0, MaxRank=3 if q else 4, MaxDim=3, MaxDimHi=2, HiRank=3 if q else 4, Ctors={S("C"), S("F")},
             ViewDepth=1, Mode=S("flat"), Lays={S("C")})
    cases = c.tlc("MC_iter", "iter-flat", k, inv)
    c.replay("iter-flat", cases, dtypes="float64,uint8,string", pals="ident", rotate=1)
    if not q:   # two view steps on rank <= 3 with dims <= 2 (row-major)
        kd = dict(MinRank=1, MaxRank=3, MaxDim=2, MaxDimHi=2, HiRank=3, Ctors={S("C")}, ViewDepth=2, Mode=S("flat"), Lays={S("C")})
        cases = c.tlc("MC_iter", "iter-flat-d2", kd, inv)
        c.replay("iter-flat-d2", cases, dtypes="float64", pals="ident")
    if not q:
        k2 = dict(MinRank=1, MaxRank=3, MaxDim=3, MaxDimHi=3, HiRank=4, Ctors={S("C"), S("F")}, ViewDepth=1, Mode=S("flat"), Lays={S("C")})
        cases = c.tlc("MC_iter", "iter-flat3", k2, inv)
        c.replay("iter-flat3", cases, dtypes="float64", pals="ident")
    km = dict(MinRank=1, MaxRank=3, MaxDim=3 if q else 3, MaxDimHi=2, HiRank=3, Ctors={S("C")}, ViewDepth=0, Mode=S("mult"),
              Lays={S(x) for x in ("C", "T", "Col", "Step", "Row")})
    cases = c.tlc("MC_iter", "iter-mult", km, ["TypeOK", "Emit"])
    c.replay("iter-mult", cases, dtypes="float64,int16", pals="ident", rotate=1 if q else 0)
    # masked stepping: every mask over <= 8 elements
    mk = mask_consts(q, "iter")
    cases = c.tlc("MC_mask", "iter-masked", mk, ["TypeOK", "Emit"])
    c.replay("iter-masked", cases, dtypes="float64,int8", pals="ident", rotate=1)
    c.rep.rule = ("TLC enumerates every access pattern reachable from shapes of rank 0-4 (incl. all vector-like shapes) by <=1 (thorough 2) "
                  "slice/transpose steps, row- and column-major, x the call programs {full forward, full reverse, Start, Reset after each k, "
                  "direction switch after each k, reverse-then-forward after each k} with Coord/Done probes; pairs and triples of equally "
                  "shaped tensors with different strides for the multi-iterator; every mask over <=6 (thorough 8) elements x valid/invalid/"
                  "validity stepping programs in both directions. Every return (offset, error, skip count, coordinate, done flag) is compared; "
                  "an offset is checked arithmetically AND behaviourally (Data()[offset] must be the expected element)")
    c.rep.assumptions = ["Coord() after exhaustion is not specified and not compared", "the masked multi-iterator's validity stepping is outside the statement"]


CHECKS = {"C01": check_C01, "C02": check_C02, "C03": check_C03, "C04": check_C04, "C13": check_C13, "C06": check_C06, "C07": check_C07, "C11": check_C11, "C12": check_C12, "C08": check_C08, "C09": check_C09, "C10": check_C10, "C05": check_C05, "C15": check_C15, "C14": check_C14, "C16": check_C16, "C20": check_C20, "C17": check_C17, "C19": check_C19, "C18": check_C18}

HOOK_COMMITS = ["5b395c2", "a24d9a3"]
NOT_YET = {}
LEVELS = {
    "C02": {"ref": "DESIGN.md 4 C02",
            "technique": "TLC-enumerated slicing behaviours (MC_slice over Tensor.tla) replayed on the real library through Slice, SliceInto and Narrow",
            "text": "bounded exhaustive model checking: the complete per-axis argument space of the statement on every source layout, nested to depth 3; every emitted behaviour is executed and every live tensor and backing compared with the specification's state",
            "note": "bounded (rank<=4, dims<=3..4 and up to 7 on rank<=2, steps<=5); empty ranges and negative steps are left open by the statement"},
    "C03": {"ref": "DESIGN.md 4 C03",
            "technique": "TLC-enumerated transposition programs (MC_trans) replayed in the default and inplacetranspose builds; Level-2 transcription of the in-place algorithm (InplaceT.tla) checked by TLC to refine Level-1 Transpose (MC_inplace)",
            "text": "bounded exhaustive model checking: all programs over T/UT/Transpose/Materialize/SafeT/RollAxis up to length 2-4 for every shape and permutation in bounds, on contiguous, sliced and column-major sources, in two builds and six element sizes; storage order after physical moves is observed through the caller's backing",
            "note": "bounded (rank<=5, dims<=3, length<=4); the algebraic laws of the oracle (composition, inverse, pending consistency) are TLC invariants"},
    "C04": {"ref": "DESIGN.md 4 C04",
            "technique": "TLC-enumerated view/write/copy behaviours (MC_views, action property Frame) replayed on the real library",
            "text": "bounded exhaustive model checking: every view in bounds x every whole-tensor write and copy operation; the specification's heap frame is an action property checked by TLC, and the real library's complete backing storage plus every live tensor is compared with the specification's heap after each behaviour",
            "note": "bounded (rank<=4, dims<=3, views of <=2 steps); sentinel = pairwise distinct cell values"},
    "C13": {"ref": "DESIGN.md 4 C13",
            "technique": "TLC-enumerated reshape/permutation/slice/repeat/concat argument spaces (MC_shape, MC_slice, MC_assemble) replayed with the shape-only calculators executed next to the operations; Level-2 transcription of the stride arithmetic and the flat iterator (AP.tla, FlatIter.tla) checked by TLC to refine Level 1 (MC_ap) and compared with the real strides",
            "text": "bounded exhaustive model checking: the specification supplies the complete argument spaces and the Level-1 result; the replayer runs the operation and the calculator and compares both with each other and with the specification; the metadata invariant is evaluated on every tensor produced by every check",
            "note": "bounded (rank<=4, dims<=5; slice calculators: axes<=7, steps<=5)"},
    "C06": {"ref": "DESIGN.md 4 C06",
            "technique": "TLC-enumerated operand structures (MC_elem over Tensor.tla/Layouts.tla; 12 operand layouts, scalar as constant or rank-0 tensor, chained second call) replayed with every operator, element type and value palette",
            "text": "bounded exhaustive model checking of the structure (which elements are combined, in which operand order, result shape, refusals) for every operand layout combination; each structure is executed on the real library for every operator x element type x palette and compared coordinate by coordinate with the term the specification assigns, evaluated with Go's operator",
            "note": "bounded (rank<=4, dims<=3); scalar semantics delegated to Go's operators as the property states"},
    "C07": {"ref": "DESIGN.md 4 C07",
            "technique": "TLC-enumerated option-mode structures (MC_elem, invariant OperandsIntact) replayed; every live tensor compared after the call",
            "text": "bounded exhaustive model checking: the specification's Deliver action fixes, per mode, the returned tensor and the single tensor that changes; TLC checks on the model that every other tensor keeps its values; the replayer executes each structure (arithmetic, comparison, unary x safe/unsafe/reuse/incr/aliasing reuse x operand and destination layouts) and compares all live tensors, all caller backings and the identity of the returned tensor",
            "note": "bounded (rank<=3, dims<=3); refusal accepted for aliasing reuse and for view / lazily transposed destinations"},
    "C11": {"ref": "DESIGN.md 4 C11",
            "technique": "TLC-enumerated comparison structures (MC_elem, Kinds={Cmp}) replayed with every comparison, element type and palette",
            "text": "bounded exhaustive model checking of the structure; truth values from Go's comparison operators in operand order; result kinds bool / same-type / unsafe / reuse",
            "note": "bounded (rank<=4, dims<=3)"},
    "C12": {"ref": "DESIGN.md 4 C12",
            "technique": "TLC-enumerated unary structures (MC_elem, Kinds={Unary}) replayed with every unary function, Clamp and Apply, every element type and palette",
            "text": "bounded exhaustive model checking of the structure; values from Go's math/math32/cmplx routines within 8 ulp, exact for integer types and algebraic functions",
            "note": "bounded (rank<=4, dims<=3); scalar function delegated to Go's maths routines as the property states"},
    "C08": {"ref": "DESIGN.md 4 C08",
            "technique": "TLC-enumerated reduction structures (MC_reduce, invariant FibresPartition) replayed with every fold, element type and palette",
            "text": "bounded exhaustive model checking of which elements are folded into which result position for every axis set, order of listing and operand layout; folds evaluated with Go's operators (integer sums wrap), first-index rule for arg-reductions",
            "note": "bounded (rank<=4, dims<=3); refusal accepted"},
    "C09": {"ref": "DESIGN.md 4 C09",
            "technique": "TLC-enumerated product structures (MC_linalg over ProductSpec/ContractCells in Tensor.tla; operand and destination layouts, re-laid-out reuse tensors, chained products, rank-4 contractions) replayed for the float and complex element types",
            "text": "bounded exhaustive model checking of which operand elements are multiplied and summed into which result element, for every operand shape combination, contraction axis choice, operand layout and option mode in bounds",
            "note": "bounded (dims<=3, thorough 4; rank<=4 for contractions); refusal accepted; rounding tolerance n*eps*sum|x*y| for non-integer data"},
    "C10": {"ref": "DESIGN.md 4 C10",
            "technique": "TLC-enumerated assembly structures (MC_assemble over ConcatT/StackT/RepeatT in Tensor.tla) replayed for every element size",
            "text": "bounded exhaustive model checking of the placement of every operand element in the result for every operand count, axis, operand layout and repeat-count vector in bounds; must-reject inputs (non-fitting shapes, wrong number of counts) included",
            "note": "bounded (<=4 operands, rank<=4, dims<=3)"},
    "C05": {"ref": "DESIGN.md 4 C05",
            "technique": "TLC-enumerated iterator call programs (MC_iter / MC_mask over Iter.tla, invariant ForwardVisitsAll) replayed on the real iterators",
            "text": "bounded exhaustive model checking: Iter.tla defines the iterator as a state machine over logical positions; TLC checks that it visits every position once in order and enumerates the access patterns x call programs; every call of every program is executed on the real FlatIterator / FlatMaskedIterator / MultIterator and compared",
            "note": "bounded (rank<=4, dims<=3, masks<=8 elements)"},
    "C15": {"ref": "DESIGN.md 4 C15",
            "technique": "TLC-enumerated mask behaviours (MC_mask: every mask over small shapes; invariant SteppingPartitions) replayed; masks read back with MaskAt",
            "text": "bounded exhaustive model checking: the specification keeps a mask with the storage so that it travels with its elements by construction; TLC enumerates every mask in bounds and computes counts, runs, edges, filled values, predicate masks (as truth-valued terms) and stepping results; the replayer compares each with the library",
            "note": "bounded (masks over <=10 elements)"},
    "C14": {"ref": "DESIGN.md 4 C14",
            "technique": "TLC-enumerated encode/decode behaviours (MC_io over RoundTripT in Tensor.tla) replayed with the real encoders and decoders",
            "text": "bounded exhaustive model checking of the structure (format x shape x layout x mask); the wire value is abstract in the specification, the replayer runs the real encoder and decoder and compares the decoded tensor with the specification's logical content",
            "note": "bounded (rank<=4, dims<=3); byte-level fidelity is opaque to the model"},
    "C16": {"ref": "DESIGN.md 4 C16",
            "technique": "the TLC-enumerated operation families (MC_elem, MC_reduce, MC_linalg, MC_assemble, MC_views, MC_copy) re-parameterised with column-major operand layouts and replayed",
            "text": "bounded exhaustive model checking: the same Level-1 specification (which has no notion of data order) is the oracle for every combination of row- and column-major operands and destinations in bounds",
            "note": "bounded (rank<=3, dims<=3); refusal accepted"},
    "C20": {"ref": "DESIGN.md 4 C20",
            "technique": "TLC-enumerated behaviour corpora (MC_elem incl. FMA, MC_linalg, MC_trans, MC_iter, MC_addr) replayed under every engine x build-tag configuration against one Level-1 result",
            "text": "bounded exhaustive model checking: the configuration is a parameter that appears in no expected value of the specification, so each engine/build must reproduce the same specified result; 8 configurations x 5 corpora",
            "note": "bounded as the underlying families; three builds are compiled from /repo's working tree per run"},
    "C17": {"ref": "DESIGN.md 4 C17",
            "technique": "TLC evaluates the operation terms itself over the integers (Interp.tla, MC_interp); replay for every element type; measured function coverage of the generated sources",
            "text": "bounded exhaustive model checking: one integer interpretation of every operation family and kernel variant, computed by TLC, must be delivered by every element type that can represent it; exhaustiveness over the generated kernels is measured as function coverage (go build -cover) and written to the evidence",
            "note": "palette of small positive integers exactly representable in all numeric types; bounded shapes"},
    "C19": {"ref": "DESIGN.md 4 C19",
            "technique": "trace validation: random operation histories recorded from the real library (shape, elements and mask of every live tensor observed after every call, hook events of the ints / option / header / tensor-struct pools, caller slices) checked by TLC against spec/Trace.tla; plus TLC-enumerated histories replayed with every live tensor and caller slice compared",
            "text": "model checking of recorded behaviours: every line of every recorded history must be a step of the specification and the observation of ALL live tensors must equal the specification's state, so a corruption of a tensor other than the destination, of a caller's slice, or a pool double-return is rejected at the line where it happens",
            "note": "randomised histories (seeded), not exhaustive; integer-valued data; inputs of listed findings are not generated"},
    "C18": {"ref": "DESIGN.md 4 C18",
            "technique": "spec/Conc.tla instantiated with the writes to shared operands and the pool traffic (option, scalar-header and tensor-struct pools, objects with identity) measured on the real code through hooks, all interleavings explored by TLC (SharedNeverWritten, NoReadDuringForeignWrite, ResultsSequential, PoolExclusive); pool protocol checked on the measured events; race-detector monitoring of seeded concurrent programs against sequential results",
            "text": "model checking of interleavings for a model whose per-operation shared accesses and pool traffic are measured from the implementation (write-set and pool-protocol conformance), plus exploration: seeded concurrent programs and a pairwise stress of the alphabet (read-only operations on shared tensors and option-bearing operations on own tensors) under the Go race detector with results compared to the sequential run",
            "note": "interleavings exhaustive for 2-3 goroutines x <=2 operations in the model; the race detector observes, it does not prove"},
    "C01": {"ref": "DESIGN.md 4 C01",
            "technique": "TLC-enumerated behaviours of the TLA+ tensor machine (MC_addr) replayed on the real library",
            "text": "bounded exhaustive model checking: TLC enumerates every shape/constructor/layout in bounds and the complete coordinate->cell table of each; every table entry is executed (At and SetAt) on the real tensor for every element type, with a full snapshot of all storage around each write",
            "note": "bounded (rank<=4, dims<=3/4); element identity observed through distinct values; the public API (At, Data via the caller's backing) is the observation function"},
}
